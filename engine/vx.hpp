// vx.hpp - common machinery of the /verif model-checking harnesses.
//
//  * fork-based worker pool over numbered chunks; every case announces (chunk, index) in a shared page so
//    that a worker that dies (sanitizer abort, SIGSEGV on a guard page, SIGFPE, hang) is attributed to one
//    case, which is then re-run alone (replay-before-report) and the chunk is resumed behind it;
//  * allocation ledger plugged into Qentem's own QENTEM_Q_TEST_H seam (see vx_ledger.hpp);
//  * result records (counters, distinct-outcome hashes, samples, violations) streamed through per-worker
//    files and merged by the parent; a "part" JSON file is written for the ./check driver.
//
// Nothing in here samples: pools only distribute a deterministic enumeration.
#ifndef VX_HPP
#define VX_HPP

#include <new>
#include <cstdlib>
#include <cstdio>
#include <cstdint>
#include <cstring>
#include <cerrno>
#include <string>
#include <vector>
#include <map>
#include <set>
#include <unordered_set>
#include <algorithm>
#include <functional>
#include <atomic>
#include <unistd.h>
#include <fcntl.h>
#include <signal.h>
#include <time.h>
#include <sys/mman.h>
#include <sys/wait.h>
#include <sys/stat.h>
#include <sys/resource.h>

namespace vx {

inline double now() {
    timespec ts;
    clock_gettime(CLOCK_MONOTONIC, &ts);
    return double(ts.tv_sec) + double(ts.tv_nsec) * 1e-9;
}

inline uint64_t fnv(const void *p, size_t n, uint64_t h = 1469598103934665603ULL) {
    const unsigned char *c = (const unsigned char *)p;
    for (size_t i = 0; i < n; i++) {
        h ^= c[i];
        h *= 1099511628211ULL;
    }
    return h;
}
inline uint64_t mix(uint64_t x) {
    x ^= x >> 33;
    x *= 0xff51afd7ed558ccdULL;
    x ^= x >> 33;
    x *= 0xc4ceb9fe1a85ec53ULL;
    x ^= x >> 33;
    return x;
}
inline uint64_t hstr(const std::string &s) { return mix(fnv(s.data(), s.size())); }

// printable rendition of arbitrary bytes (used for keys, samples and replay files; reversible)
inline std::string esc(const std::string &s) {
    std::string o;
    char        b[8];
    for (unsigned char c : s) {
        if (c == '\\') {
            o += "\\\\";
        } else if (c >= 0x20 && c < 0x7f) {
            o += char(c);
        } else {
            snprintf(b, sizeof b, "\\x%02x", c);
            o += b;
        }
    }
    return o;
}
inline std::string unesc(const std::string &s) {
    std::string o;
    for (size_t i = 0; i < s.size(); i++) {
        if (s[i] == '\\' && i + 1 < s.size()) {
            if (s[i + 1] == '\\') {
                o += '\\';
                i++;
            } else if (s[i + 1] == 'x' && i + 3 < s.size()) {
                o += char(strtol(s.substr(i + 2, 2).c_str(), nullptr, 16));
                i += 3;
            } else {
                o += s[i];
            }
        } else {
            o += s[i];
        }
    }
    return o;
}
inline std::string jstr(const std::string &s) {
    std::string o = "\"";
    char        b[8];
    for (unsigned char c : s) {
        if (c == '"' || c == '\\') {
            o += '\\';
            o += char(c);
        } else if (c < 0x20 || c >= 0x7f) {
            snprintf(b, sizeof b, "\\u%04x", c);
            o += b;
        } else {
            o += char(c);
        }
    }
    return o + "\"";
}

struct Violation {
    std::string key;    // canonical text of the failing case (matched against known_findings.txt)
    std::string detail; // expected vs observed / crash description
    std::string replay; // argument for --replay
};

// ------------------------------------------------------------------------------------------------------
// Per-process accumulator. Workers serialise it to a file, the parent merges.
struct Acc {
    std::map<std::string, uint64_t> counters;
    std::unordered_set<uint64_t>    outcomes; // hashes of distinct observed outcomes / canonical states
    std::vector<std::string>        samples;
    std::vector<Violation>          violations;
    std::vector<std::string>        records; // free-form records for the parent (E1 frontier etc.)
    size_t                          max_samples    = 6;
    size_t                          max_violations = 200;
    uint64_t                        dropped_violations = 0;

    void count(const char *k, uint64_t n = 1) { counters[k] += n; }
    void outcome(uint64_t h) { outcomes.insert(h); }
    void sample(const std::string &s) {
        if (samples.size() < max_samples) {
            samples.push_back(s);
        }
    }
    // violations are kept stratified: at most per_class of each class (detail text with numbers blanked), so that a
    // dense class cannot hide a rare one; the rest is only counted
    std::map<std::string, uint32_t> class_count;
    uint32_t                        per_class = 6;
    static std::string vclass(const std::string &detail) {
        std::string c;
        bool        in_num = false;
        for (char ch : detail) {
            bool num = (ch >= '0' && ch <= '9') || (in_num && (ch == '.' || ch == 'e' || ch == 'x' || ch == '+' || ch == '-' || (ch >= 'a' && ch <= 'f')));
            if (num) {
                if (!in_num) {
                    c += '#';
                }
                in_num = true;
            } else {
                in_num = false;
                c += ch;
            }
            if (c.size() >= 60) {
                break;
            }
        }
        return c;
    }
    void fail(const std::string &key, const std::string &detail, const std::string &replay) {
        uint32_t &n = class_count[vclass(detail)];
        if (n < per_class && violations.size() < max_violations) {
            ++n;
            violations.push_back({key, detail, replay});
        } else {
            ++dropped_violations;
        }
    }
    void merge(const Acc &o) {
        for (auto &kv : o.counters) {
            counters[kv.first] += kv.second;
        }
        outcomes.insert(o.outcomes.begin(), o.outcomes.end());
        for (auto &s : o.samples) {
            sample(s);
        }
        for (auto &v : o.violations) {
            fail(v.key, v.detail, v.replay);
        }
        dropped_violations += o.dropped_violations;
        for (auto &r : o.records) {
            records.push_back(r);
        }
    }
    bool save(const std::string &path) const {
        FILE *f = fopen(path.c_str(), "w");
        if (!f) {
            return false;
        }
        for (auto &kv : counters) {
            fprintf(f, "C %s %llu\n", kv.first.c_str(), (unsigned long long)kv.second);
        }
        for (auto h : outcomes) {
            fprintf(f, "O %llx\n", (unsigned long long)h);
        }
        for (auto &s : samples) {
            fprintf(f, "S %s\n", esc(s).c_str());
        }
        for (auto &v : violations) {
            fprintf(f, "V %s\nD %s\nR %s\n", esc(v.key).c_str(), esc(v.detail).c_str(), esc(v.replay).c_str());
        }
        for (auto &r : records) {
            fprintf(f, "X %s\n", esc(r).c_str());
        }
        fprintf(f, "Q %llu\nE\n", (unsigned long long)dropped_violations);
        return fclose(f) == 0;
    }
    // returns false when the file is missing or lacks its end marker (worker died while writing)
    bool load(const std::string &path) {
        FILE *f = fopen(path.c_str(), "r");
        if (!f) {
            return false;
        }
        std::string line;
        bool        complete = false;
        Violation   cur;
        char       *buf = nullptr;
        size_t      cap = 0;
        ssize_t     n;
        while ((n = getline(&buf, &cap, f)) > 0) {
            if (buf[n - 1] == '\n') {
                buf[--n] = 0;
            }
            if (n < 1) {
                continue;
            }
            const char  t = buf[0];
            const char *p = (n > 2) ? buf + 2 : "";
            if (t == 'C') {
                const char *sp = strchr(p, ' ');
                if (sp) {
                    counters[std::string(p, sp - p)] += strtoull(sp + 1, nullptr, 10);
                }
            } else if (t == 'O') {
                outcomes.insert(strtoull(p, nullptr, 16));
            } else if (t == 'S') {
                sample(unesc(p));
            } else if (t == 'V') {
                cur.key = unesc(p);
            } else if (t == 'D') {
                cur.detail = unesc(p);
            } else if (t == 'R') {
                cur.replay = unesc(p);
                fail(cur.key, cur.detail, cur.replay);
            } else if (t == 'X') {
                records.push_back(unesc(p));
            } else if (t == 'Q') {
                dropped_violations += strtoull(p, nullptr, 10);
            } else if (t == 'E') {
                complete = true;
            }
        }
        free(buf);
        fclose(f);
        return complete;
    }
};

// ------------------------------------------------------------------------------------------------------
struct Slot {
    volatile int64_t chunk;
    volatile int64_t idx;
    volatile int64_t phase; // 0 idle, 1 running a case, 2 finished normally
    char             desc[3400];
    char             replay[600]; // optional: replay argument published together with the description
};
struct Shared {
    std::atomic<int64_t> next_chunk;
    std::atomic<int64_t> stop; // set when the global deadline passed: workers finish their chunk and exit
    Slot                 slots[64];
};

struct Ctx {
    Acc     acc;
    Slot   *slot      = nullptr;
    int64_t chunk     = 0;
    int64_t idx       = -1;
    int64_t start_idx = 0;  // skip cases before this index (resume after a crash)
    int64_t only_idx  = -1; // >=0: run exactly this case (isolation / replay)
    bool    isolated  = false;
    std::vector<int64_t> skip; // cases of this chunk that killed a worker before (already isolated by the parent)

    void begin_chunk(int64_t c) {
        chunk = c;
        idx   = -1;
        if (slot) {
            slot->chunk = c;
            slot->idx   = -1;
        }
    }
    // call once per case, in enumeration order; returns true when the case has to be executed
    inline bool next() {
        ++idx;
        if (slot) {
            slot->idx = idx;
        }
        if (only_idx >= 0) {
            return idx == only_idx;
        }
        if (!skip.empty() && std::find(skip.begin(), skip.end(), idx) != skip.end()) {
            return false;
        }
        return idx >= start_idx;
    }
    void fail(const std::string &key, const std::string &detail) {
        acc.fail(key, detail, "stage=" + std::to_string(stage) + " chunk=" + std::to_string(chunk) + " idx=" + std::to_string(idx));
    }
    int stage = 0;
    inline bool past_only() const { return only_idx >= 0 && idx > only_idx; }
    // in isolation mode the case text is published *before* the case runs, so the parent has it if we die
    inline bool want_desc() const { return isolated; }
    void        describe(const std::string &d, const std::string &replay = "") {
        if (slot) {
            size_t n = std::min(d.size(), sizeof(slot->desc) - 1);
            memcpy(slot->desc, d.data(), n);
            slot->desc[n] = 0;
            n = std::min(replay.size(), sizeof(slot->replay) - 1);
            memcpy(slot->replay, replay.data(), n);
            slot->replay[n] = 0;
        }
    }
};

struct PoolOptions {
    int         workers        = 16;
    double      hang_s         = 20;   // no progress on one case for this long => suspected hang
    double      hang_confirm_s = 120;  // isolated re-run limit before it is called a hang
    double      deadline       = 0;    // absolute vx::now() after which no new chunk is started (0: none)
    std::string tmpdir         = "build/run";
    std::string tag            = "pool";
    std::string asan_log;              // when set, isolated children get ASAN log redirected there
    uint64_t    max_crashes    = 12;   // after this many isolated crashes/hangs the stage stops early (not exhaustive)
};

struct PoolResult {
    Acc      acc;
    int64_t  chunks_total = 0, chunks_done = 0;
    bool     complete     = true; // false when the deadline stopped dispatch
    uint64_t crashes = 0, hangs = 0, unreproduced = 0;
};

using ChunkFn = std::function<void(int64_t chunk, Ctx &)>;

inline std::string read_file_tail(const std::string &path, size_t maxb = 3000) {
    FILE *f = fopen(path.c_str(), "r");
    if (!f) {
        return "";
    }
    std::string s;
    char        b[4096];
    size_t      n;
    while ((n = fread(b, 1, sizeof b, f)) > 0) {
        s.append(b, n);
    }
    fclose(f);
    if (s.size() > maxb) {
        s.resize(maxb);
    }
    return s;
}

// one line that names what the sanitizer saw, e.g. "heap-buffer-overflow READ 1 in Qentem::JSON::..."
inline std::string summarize_crash(const std::string &log, int status) {
    std::string out;
    if (WIFSIGNALED(status)) {
        out = "signal " + std::to_string(WTERMSIG(status));
    } else {
        out = "exit " + std::to_string(WEXITSTATUS(status));
    }
    size_t p = log.find("ERROR: AddressSanitizer:");
    if (p != std::string::npos) {
        size_t e = log.find('\n', p);
        out += " | " + log.substr(p + 7, e - p - 7);
    }
    p = log.find("runtime error:");
    if (p != std::string::npos) {
        size_t b = log.rfind('\n', p);
        size_t e = log.find('\n', p);
        out += " | " + log.substr(b == std::string::npos ? 0 : b + 1, e - (b == std::string::npos ? 0 : b + 1));
    }
    // first Qentem frame
    p = log.find("Qentem::");
    if (p != std::string::npos) {
        size_t e = log.find_first_of("\n", p);
        std::string fr = log.substr(p, e - p);
        if (fr.size() > 160) {
            fr.resize(160);
        }
        out += " | at " + fr;
    }
    return out;
}

class Pool {
  public:
    explicit Pool(const PoolOptions &o) : opt(o) {
        sh = (Shared *)mmap(nullptr, sizeof(Shared), PROT_READ | PROT_WRITE, MAP_SHARED | MAP_ANONYMOUS, -1, 0);
        if (sh == MAP_FAILED) {
            perror("mmap");
            exit(2);
        }
        mkdir("build", 0777);
        mkdir(opt.tmpdir.c_str(), 0777);
        if (opt.workers > 60) {
            opt.workers = 60;
        }
    }
    ~Pool() { munmap(sh, sizeof(Shared)); }

    // Runs fn over chunks [0,n). The property id is only used in messages.
    PoolResult run(int64_t n, const ChunkFn &fn) {
        PoolResult res;
        res.chunks_total = n;
        new (&sh->next_chunk) std::atomic<int64_t>(0);
        new (&sh->stop) std::atomic<int64_t>(0);
        ++generation;
        struct W {
            pid_t   pid = 0;
            int64_t last_chunk = -2, last_idx = -2;
            double  last_change = 0;
        };
        std::vector<W> ws(opt.workers);
        int            live = 0;
        std::map<int64_t, std::vector<int64_t>> skips; // per chunk: cases that killed a worker
        auto spawn = [&](int w, int64_t resume_chunk) {
            Slot &s = sh->slots[w];
            s.chunk = resume_chunk;
            s.idx   = -1;
            s.phase = 0;
            fflush(stdout);
            fflush(stderr);
            pid_t pid = fork();
            if (pid < 0) {
                perror("fork");
                exit(2);
            }
            if (pid == 0) {
                worker_main(w, resume_chunk, resume_chunk >= 0 ? skips[resume_chunk] : std::vector<int64_t>(), n, fn);
            }
            ws[w].pid         = pid;
            ws[w].last_chunk  = -2;
            ws[w].last_idx    = -2;
            ws[w].last_change = now();
            ++live;
        };
        for (int w = 0; w < opt.workers && w < n; w++) {
            spawn(w, -1);
        }
        while (live > 0) {
            if (opt.deadline > 0 && now() > opt.deadline && sh->stop.load() == 0) {
                sh->stop.store(1);
                res.complete = false;
            }
            int   status = 0;
            pid_t p      = waitpid(-1, &status, WNOHANG);
            if (p == 0) {
                // hang watch
                double t = now();
                for (int w = 0; w < (int)ws.size(); w++) {
                    if (ws[w].pid == 0) {
                        continue;
                    }
                    Slot &s = sh->slots[w];
                    if (s.chunk != ws[w].last_chunk || s.idx != ws[w].last_idx) {
                        ws[w].last_chunk  = s.chunk;
                        ws[w].last_idx    = s.idx;
                        ws[w].last_change = t;
                    } else if (s.phase == 1 && t - ws[w].last_change > opt.hang_s) {
                        kill(ws[w].pid, SIGKILL);
                    }
                }
                usleep(2000);
                continue;
            }
            if (p < 0) {
                if (errno == EINTR) {
                    continue;
                }
                break;
            }
            int w = -1;
            for (int i = 0; i < (int)ws.size(); i++) {
                if (ws[i].pid == p) {
                    w = i;
                }
            }
            if (w < 0) {
                continue;
            }
            --live;
            ws[w].pid = 0;
            Slot &s   = sh->slots[w];
            // collect whatever the worker managed to save
            std::string rf = resfile(w);
            Acc         part;
            bool        ok = part.load(rf);
            unlink(rf.c_str());
            if (WIFEXITED(status) && WEXITSTATUS(status) == 0 && ok) {
                res.acc.merge(part);
                continue;
            }
            if (sh->stop.load() != 0 && WIFSIGNALED(status) && WTERMSIG(status) == SIGKILL &&
                res.crashes + res.hangs + res.unreproduced >= opt.max_crashes) {
                Acc ck2;
                if (ck2.load(ckfile(w))) {
                    res.acc.merge(ck2);
                }
                unlink(ckfile(w).c_str());
                continue; // killed by us after the crash cap
            }
            // abnormal end while running case (s.chunk, s.idx): partial results of this worker are lost except
            // for completed chunks, which were checkpointed (see worker_main); re-run the case alone.
            Acc ck;
            if (ck.load(ckfile(w))) {
                res.acc.merge(ck);
            }
            unlink(ckfile(w).c_str());
            int64_t c = s.chunk, i = s.idx;
            bool    was_hang = WIFSIGNALED(status) && WTERMSIG(status) == SIGKILL;
            if (c < 0 || c >= n) {
                fprintf(stderr, "vx: worker %d died outside a chunk (status %d)\n", w, status);
                res.acc.fail("harness: worker died outside a chunk", summarize_crash("", status), "");
                continue;
            }
            if (i < 0) {
                i = 0;
            }
            isolate(c, i, fn, was_hang, status, res);
            if (res.crashes + res.hangs + res.unreproduced >= opt.max_crashes) {
                // enough: the verdict is decided; stop dispatching, do not resume this chunk
                if (sh->stop.load() == 0) {
                    sh->stop.store(1);
                    res.complete = false;
                    for (auto &x : ws) {
                        if (x.pid != 0) {
                            kill(x.pid, SIGKILL);
                        }
                    }
                }
                continue;
            }
            if (sh->stop.load() != 0) {
                continue;
            }
            // re-run the chunk without the failing case (its partial results died with the worker)
            skips[c].push_back(i);
            spawn(w, c);
        }
        res.chunks_done = std::min<int64_t>(sh->next_chunk.load(), n);
        if (!res.complete) {
            // chunks handed out are complete; the rest was never started
            res.chunks_done = std::min<int64_t>(sh->next_chunk.load() - 0, n);
        }
        return res;
    }

    // run one case alone in a child (used by --replay); returns true if the child ended normally
    bool run_isolated(int64_t c, int64_t i, const ChunkFn &fn, Acc &out, std::string &desc, std::string &crash,
                      double limit_s) {
        Slot &s = sh->slots[63];
        s.chunk = c;
        s.idx   = -1;
        s.phase = 0;
        s.desc[0] = 0;
        s.replay[0] = 0;
        std::string rf  = opt.tmpdir + "/" + opt.tag + ".iso.res";
        std::string log = opt.tmpdir + "/" + opt.tag + ".iso.log";
        unlink(rf.c_str());
        // sanitizer runtimes append .<pid> to log_path
        fflush(stdout);
        fflush(stderr);
        pid_t pid = fork();
        if (pid == 0) {
            int fd = open(log.c_str(), O_WRONLY | O_CREAT | O_TRUNC, 0666);
            if (fd >= 0) {
                dup2(fd, 2);
                close(fd);
            }
            Ctx ctx;
            ctx.slot     = &s;
            ctx.only_idx = i;
            ctx.isolated = true;
            ctx.begin_chunk(c);
            s.phase = 1;
            fn(c, ctx);
            s.phase = 2;
            ctx.acc.save(rf);
            fflush(nullptr);
            _exit(0);
        }
        double t0     = now();
        int    status = 0;
        bool   killed = false;
        for (;;) {
            pid_t p = waitpid(pid, &status, WNOHANG);
            if (p == pid) {
                break;
            }
            if (now() - t0 > limit_s && !killed) {
                kill(pid, SIGKILL);
                killed = true;
            }
            usleep(1000);
        }
        desc    = s.desc;
        bool ok = out.load(rf);
        unlink(rf.c_str());
        std::string lg = read_file_tail(log, 6000);
        unlink(log.c_str());
        if (WIFEXITED(status) && WEXITSTATUS(status) == 0 && ok) {
            return true;
        }
        crash = killed ? ("no termination within " + std::to_string((int)limit_s) + " s") : summarize_crash(lg, status);
        return false;
    }

    PoolOptions opt;
    int         cur_stage = 0;

  private:
    Shared *sh;
    int     generation = 0;

    std::string resfile(int w) { return opt.tmpdir + "/" + opt.tag + "." + std::to_string(w) + ".res"; }
    std::string ckfile(int w) { return opt.tmpdir + "/" + opt.tag + "." + std::to_string(w) + ".ck"; }

    [[noreturn]] void worker_main(int w, int64_t resume_chunk, const std::vector<int64_t> &skip, int64_t n,
                                  const ChunkFn &fn) {
        Ctx ctx;
        ctx.slot = &sh->slots[w];
        // sanitizer reports of a dying worker are noise (the case is re-run alone); silence them
        int fd = open("/dev/null", O_WRONLY);
        if (fd >= 0) {
            dup2(fd, 2);
            close(fd);
        }
        unlink(ckfile(w).c_str());
        int64_t c = resume_chunk;
        ctx.skip  = skip;
        for (;;) {
            if (c < 0) {
                if (sh->stop.load() != 0) {
                    break;
                }
                c = sh->next_chunk.fetch_add(1);
                if (c >= n) {
                    break;
                }
                ctx.skip.clear();
            }
            ctx.begin_chunk(c);
            ctx.slot->phase = 1;
            fn(c, ctx);
            ctx.slot->phase = 0;
            ctx.slot->chunk = -1;
            // checkpoint completed work so that a later crash of this worker loses nothing
            ctx.acc.save(ckfile(w) + ".tmp");
            rename((ckfile(w) + ".tmp").c_str(), ckfile(w).c_str());
            c = -1;
        }
        ctx.slot->phase = 2;
        ctx.acc.save(resfile(w));
        unlink(ckfile(w).c_str());
        fflush(nullptr);
        _exit(0);
    }

    void isolate(int64_t c, int64_t i, const ChunkFn &fn, bool was_hang, int status, PoolResult &res) {
        Acc         part;
        std::string desc, crash;
        bool        ok = run_isolated(c, i, fn, part, desc, crash, was_hang ? opt.hang_confirm_s : opt.hang_confirm_s);
        std::string rp = "stage=" + std::to_string(cur_stage) + " chunk=" + std::to_string(c) + " idx=" + std::to_string(i);
        if (sh->slots[63].replay[0] != 0) {
            rp = sh->slots[63].replay;
        }
        if (ok) {
            // the case passes alone: merge its verdict. A crash that needs the preceding cases of the chunk is
            // still a real observation (state leaked between cases) - re-run the chunk prefix to decide.
            res.acc.merge(part);
            if (!was_hang) {
                ++res.unreproduced;
                res.acc.fail("unreproduced: worker died at " + rp + " but the case passes alone",
                             summarize_crash("", status) + " case=" + desc, rp);
            }
            return;
        }
        if (crash.find("no termination") != std::string::npos) {
            ++res.hangs;
        } else {
            ++res.crashes;
        }
        res.acc.merge(part);
        res.acc.fail(desc.empty() ? rp : desc, crash, rp);
    }
};

// ------------------------------------------------------------------------------------------------------
// Exact-size buffers: the text is placed so that it ends exactly at the end of an allocation.
//  * under ASan: plain heap block of exactly n units (redzone directly behind the last unit)
//  * otherwise: the block ends at a PROT_NONE page
#if defined(__has_feature)
#if __has_feature(address_sanitizer)
#define VX_ASAN 1
#endif
#endif
#if defined(__SANITIZE_ADDRESS__)
#define VX_ASAN 1
#endif

class GuardBuf {
  public:
    explicit GuardBuf(size_t max_bytes) {
        page = (size_t)sysconf(_SC_PAGESIZE);
        span = ((max_bytes + page - 1) / page + 1) * page;
        base = (char *)mmap(nullptr, span + page, PROT_READ | PROT_WRITE, MAP_PRIVATE | MAP_ANONYMOUS, -1, 0);
        if (base == MAP_FAILED) {
            perror("mmap");
            exit(2);
        }
        mprotect(base + span, page, PROT_NONE);
    }
    ~GuardBuf() { munmap(base, span + page); }
    // returns a pointer p such that p+bytes is the first byte of the guard page; alignment of `align` bytes is
    // kept by the caller choosing bytes as a multiple of the unit size.
    void *place(const void *src, size_t bytes) {
        char *p = base + span - bytes;
        if (bytes) {
            memcpy(p, src, bytes);
        }
        return p;
    }

  private:
    char  *base;
    size_t page, span;
};

// ------------------------------------------------------------------------------------------------------
struct Args {
    std::string              tier = "quick";
    std::string              out;
    std::string              replay;
    uint64_t                 seed    = 0;
    int                      workers = 16;
    double                   budget_s = 0; // global wall-clock budget for the run (0: none)
    std::map<std::string, std::string> kv;

    static Args parse(int argc, char **argv) {
        Args a;
        for (int i = 1; i < argc; i++) {
            std::string s = argv[i];
            auto        val = [&]() -> std::string { return (i + 1 < argc) ? argv[++i] : ""; };
            if (s == "--tier") {
                a.tier = val();
            } else if (s == "--out") {
                a.out = val();
            } else if (s == "--replay") {
                a.replay = val();
            } else if (s == "--seed") {
                a.seed = strtoull(val().c_str(), nullptr, 10);
            } else if (s == "--workers") {
                a.workers = atoi(val().c_str());
            } else if (s == "--budget") {
                a.budget_s = atof(val().c_str());
            } else if (s.rfind("--", 0) == 0) {
                a.kv[s.substr(2)] = val();
            }
        }
        return a;
    }
    bool thorough() const { return tier == "thorough"; }
    std::string get(const std::string &k, const std::string &d = "") const {
        auto it = kv.find(k);
        return it == kv.end() ? d : it->second;
    }
};

// The part file read by ./check
struct Part {
    std::string property, engine, variant, tier;
    uint64_t    states = 0, transitions = 0, evaluations = 0;
    bool        exhaustive = true;
    std::string rule, bounds;
    std::vector<std::string> assumptions;
    Acc         acc;
    double      wall_s = 0;
    std::string harness_error;
    uint64_t    distinct_extra = 0; // distinct cases counted by construction (enumerations without duplicates)

    bool write(const std::string &path) const {
        FILE *f = fopen(path.c_str(), "w");
        if (!f) {
            return false;
        }
        fprintf(f, "{\n \"property\": %s,\n \"engine\": %s,\n \"variant\": %s,\n \"tier\": %s,\n", jstr(property).c_str(),
                jstr(engine).c_str(), jstr(variant).c_str(), jstr(tier).c_str());
        fprintf(f, " \"states\": %llu,\n \"transitions\": %llu,\n \"evaluations\": %llu,\n", (unsigned long long)states,
                (unsigned long long)transitions, (unsigned long long)evaluations);
        fprintf(f, " \"distinct_outcomes\": %llu,\n", (unsigned long long)(acc.outcomes.size() + distinct_extra));
        fprintf(f, " \"exhaustive\": %s,\n \"rule\": %s,\n \"bounds\": %s,\n", exhaustive ? "true" : "false",
                jstr(rule).c_str(), jstr(bounds).c_str());
        fprintf(f, " \"wall_s\": %.3f,\n \"harness_error\": %s,\n", wall_s, jstr(harness_error).c_str());
        fprintf(f, " \"counters\": {");
        bool first = true;
        for (auto &kv : acc.counters) {
            fprintf(f, "%s%s: %llu", first ? "" : ", ", jstr(kv.first).c_str(), (unsigned long long)kv.second);
            first = false;
        }
        fprintf(f, "},\n \"assumptions\": [");
        first = true;
        for (auto &s : assumptions) {
            fprintf(f, "%s%s", first ? "" : ", ", jstr(s).c_str());
            first = false;
        }
        fprintf(f, "],\n \"samples\": [");
        first = true;
        for (auto &s : acc.samples) {
            fprintf(f, "%s%s", first ? "" : ", ", jstr(s).c_str());
            first = false;
        }
        fprintf(f, "],\n \"dropped_violations\": %llu,\n \"violations\": [", (unsigned long long)acc.dropped_violations);
        first = true;
        for (auto &v : acc.violations) {
            fprintf(f, "%s\n  {\"key\": %s, \"detail\": %s, \"replay\": %s}", first ? "" : ",", jstr(v.key).c_str(),
                    jstr(v.detail).c_str(), jstr(v.replay).c_str());
            first = false;
        }
        fprintf(f, "]\n}\n");
        return fclose(f) == 0;
    }
};

} // namespace vx
#endif
