// vx_ledger.hpp - allocation ledger plugged into the seam Qentem's own test-suite uses:
// Memory::Allocate/Deallocate call Qentem::MemoryRecord::AddAllocation/RemoveAllocation when
// QENTEM_Q_TEST_H is defined.  Include this header *before* any Qentem header.
#ifndef VX_LEDGER_HPP
#define VX_LEDGER_HPP

#include <new>
#include <cstdlib>
#include <cstdint>
#include <cstring>

#define QENTEM_Q_TEST_H 1

namespace vx {
struct Ledger {
    // open addressing set of live block addresses
    static constexpr size_t CAP = 1u << 16;
    void    *tab[CAP];
    size_t   live           = 0;
    uint64_t allocs         = 0;
    uint64_t frees          = 0;
    uint64_t foreign        = 0; // release of a block the ledger does not know (double / foreign release)
    bool     overflow       = false;
    size_t   tombs          = 0;
    static void *tomb() { return (void *)(uintptr_t)1; }

    static size_t slot(void *p) { return (size_t)(((uintptr_t)p >> 4) * 0x9E3779B97F4A7C15ULL >> 48); }
    void          clear() {
        memset(tab, 0, sizeof tab);
        live = 0;
        tombs = 0;
        foreign = 0;
        overflow = false;
    }
    void add(void *p) {
        ++allocs;
        if ((live + tombs) * 2 >= CAP) {
            overflow = true;
            return;
        }
        size_t i = slot(p);
        while (tab[i] != nullptr && tab[i] != tomb()) {
            i = (i + 1) & (CAP - 1);
        }
        if (tab[i] == tomb()) {
            --tombs;
        }
        tab[i] = p;
        ++live;
    }
    void remove(void *p) {
        ++frees;
        size_t i = slot(p);
        size_t n = 0;
        while (tab[i] != nullptr && n < CAP) {
            if (tab[i] == p) {
                tab[i] = tomb();
                --live;
                if (++tombs > 8192 && live == 0) {
                    memset(tab, 0, sizeof tab);
                    tombs = 0;
                }
                return;
            }
            i = (i + 1) & (CAP - 1);
            ++n;
        }
        if (!overflow) {
            ++foreign;
        }
    }
};
inline Ledger &ledger() {
    static Ledger *l = [] {
        Ledger *x = (Ledger *)calloc(1, sizeof(Ledger));
        return x;
    }();
    return *l;
}
} // namespace vx

namespace Qentem {
struct MemoryRecord {
    inline static void AddAllocation(void *pointer) noexcept { vx::ledger().add(pointer); }
    inline static void RemoveAllocation(void *pointer) noexcept { vx::ledger().remove(pointer); }
};
} // namespace Qentem

#endif
