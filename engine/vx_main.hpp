// vx_main.hpp - standard main() for chunked bounded-exhaustive harnesses.
#ifndef VX_MAIN_HPP
#define VX_MAIN_HPP
#include "vx.hpp"

namespace vx {

struct Stage {
    std::string name;
    int64_t     chunks = 0;
    ChunkFn     fn;
    double      hang_s = 20;
    // dynamic stages (level-synchronous searches): `prepare` runs in the parent before each round and returns the number
    // of chunks (0 ends the stage); `collect` receives the round's records and returns true to run another round.
    std::function<int64_t()>            prepare;
    std::function<bool(PoolResult &)>   collect;
    std::function<int(const std::string &)> replay; // custom --replay handler for this stage ("stage=<n> <rest>")
};

struct Plan {
    std::string        engine;
    std::string        rule;
    std::string        bounds;
    std::vector<Stage> stages;
    std::vector<std::string> assumptions;
    // which counters make up states / transitions / evaluations in the part file
    std::string states_counter = "states", transitions_counter = "transitions", evals_counter = "evals";
    // optional: extra work after the pools (runs in the parent), may add to acc / set harness_error
    std::function<void(Part &)> finish;
};

inline bool parse_replay(const std::string &r, int &stage, int64_t &chunk, int64_t &idx) {
    long long s = 0, c = 0, i = 0;
    if (sscanf(r.c_str(), "stage=%lld chunk=%lld idx=%lld", &s, &c, &i) == 3) {
        stage = (int)s;
        chunk = c;
        idx   = i;
        return true;
    }
    if (sscanf(r.c_str(), "chunk=%lld idx=%lld", &c, &i) == 2) {
        stage = 0;
        chunk = c;
        idx   = i;
        return true;
    }
    return false;
}

inline int standard_main(int argc, char **argv, const std::function<Plan(const Args &)> &make) {
    Args   a  = Args::parse(argc, argv);
    double t0 = now();
    Plan   plan = make(a);
    std::string prop = a.get("property", "C??");
    PoolOptions po;
    po.workers = a.workers;
    po.tag     = prop + "." + std::to_string(getpid());
    if (a.budget_s > 0) {
        po.deadline = t0 + a.budget_s;
    }
    if (!a.replay.empty()) {
        int     st;
        int64_t c, i;
        {
            long long cs = -1;
            if (sscanf(a.replay.c_str(), "custom stage=%lld", &cs) == 1 && cs >= 0 && cs < (long long)plan.stages.size() &&
                plan.stages[(size_t)cs].replay) {
                size_t sp = a.replay.find(' ', 7);
                return plan.stages[(size_t)cs].replay(sp == std::string::npos ? "" : a.replay.substr(sp + 1));
            }
        }
        if (!parse_replay(a.replay, st, c, i) || st < 0 || st >= (int)plan.stages.size()) {
            fprintf(stderr, "cannot parse replay '%s'\n", a.replay.c_str());
            return 2;
        }
        Pool        pool(po);
        Acc         acc;
        std::string desc, crash;
        Stage      &S = plan.stages[st];
        ChunkFn     fn = [&](int64_t ch, Ctx &ctx) {
            ctx.stage = st;
            S.fn(ch, ctx);
        };
        bool ok = pool.run_isolated(c, i, fn, acc, desc, crash, 600);
        printf("case: %s\n", esc(desc).c_str());
        if (!ok) {
            printf("outcome: %s\n", crash.c_str());
            return 1;
        }
        for (auto &v : acc.violations) {
            printf("violation: %s\n  %s\n", esc(v.key).c_str(), esc(v.detail).c_str());
        }
        printf("outcome: %s\n", acc.violations.empty() ? "passed" : "violation");
        return acc.violations.empty() ? 0 : 1;
    }
    Part part;
    part.property = prop;
    part.engine   = plan.engine;
    part.variant  = a.get("variant", argv[0]);
    part.tier     = a.tier;
    part.rule     = plan.rule;
    part.assumptions = plan.assumptions;
    std::string bounds = plan.bounds;
    for (size_t s = 0; s < plan.stages.size(); s++) {
        Stage &S = plan.stages[s];
        po.hang_s = S.hang_s;
        if (a.budget_s > 0) {
            // fair share: a stage may use what is left of the budget divided by the stages still to run, so that one deep
            // stage cannot starve the ones behind it; what a stage leaves unused goes to the later ones
            const double left = (t0 + a.budget_s) - now();
            po.deadline       = now() + (left > 0 ? left : 0) / (double)(plan.stages.size() - s);
        }
        Pool    pool(po);
        pool.cur_stage = (int)s;
        ChunkFn fn = [&](int64_t ch, Ctx &ctx) {
            ctx.stage = (int)s;
            S.fn(ch, ctx);
        };
        double     ts = now();
        PoolResult r;
        int        rounds = 0;
        for (;;) {
            int64_t nchunks = S.prepare ? S.prepare() : S.chunks;
            if (nchunks <= 0) {
                break;
            }
            PoolResult rr = pool.run(nchunks, fn);
            ++rounds;
            r.chunks_total += rr.chunks_total;
            r.chunks_done += rr.chunks_done;
            r.crashes += rr.crashes;
            r.hangs += rr.hangs;
            r.unreproduced += rr.unreproduced;
            r.complete = r.complete && rr.complete;
            bool again = S.collect ? S.collect(rr) : false;
            rr.acc.records.clear();
            part.acc.merge(rr.acc);
            if (!again || !rr.complete) {
                break;
            }
            if (po.deadline > 0 && now() > po.deadline) {
                r.complete = false; // stopped between rounds: the completed rounds are exhaustive, the search is not
                break;
            }
        }
        char b[256];
        snprintf(b, sizeof b, " [%s: rounds %d, chunks %lld/%lld%s, crashes %llu, hangs %llu, %.1fs]", S.name.c_str(), rounds,
                 (long long)r.chunks_done, (long long)r.chunks_total, r.complete ? "" : " DEADLINE", (unsigned long long)r.crashes,
                 (unsigned long long)r.hangs, now() - ts);
        bounds += b;
        if (!r.complete) {
            part.exhaustive = false;
        }
    }
    part.bounds      = bounds;
    part.states      = part.acc.counters[plan.states_counter];
    part.transitions = part.acc.counters[plan.transitions_counter];
    part.evaluations = part.acc.counters[plan.evals_counter];
    if (plan.finish) {
        plan.finish(part);
    }
    part.wall_s = now() - t0;
    if (a.out.empty()) {
        a.out = "/dev/stdout";
    }
    part.write(a.out);
    fprintf(stderr, "%s %s: states=%llu transitions=%llu evals=%llu distinct=%zu violations=%zu %.1fs%s\n", prop.c_str(),
            argv[0], (unsigned long long)part.states, (unsigned long long)part.transitions,
            (unsigned long long)part.evaluations, part.acc.outcomes.size(), part.acc.violations.size(), part.wall_s,
            bounds.c_str());
    return 0;
}
} // namespace vx
#endif
