// seqx.hpp - engine E1: explicit-state breadth-first search over operation histories of real objects.
//
// A *state* is the history that reaches it, replayed on a fresh system (implementation objects + boring reference
// model). After the last operation the system is canonicalised to a string; its 128-bit hash de-duplicates
// (collision probability < n^2 / 2^128, far below anything else trusted here). The search is level-synchronous:
// the parent owns `seen` and the frontier; each level is expanded by forked workers (which inherit both), new
// canonical states come back as records and are merged in a deterministic order. Every transition is checked by the
// system itself (reference-model comparison through the public read API + structural invariants).
//
// Sys concept:
//   Sys();                                   fresh system (objects constructed in 0xAB-filled storage)
//   static int         num_ops();
//   static std::string op_name(int op);
//   bool apply(int op, std::string &err);    false: op not applicable in this state (skipped). err: oracle violation
//   std::string key();                       canonical state (property-relevant fields only)
#ifndef SEQX_HPP
#define SEQX_HPP
#include "vx_main.hpp"
#include <unordered_map>

namespace seqx {

using Hist = std::vector<uint16_t>;

struct H128 {
    uint64_t a, b;
    bool     operator==(const H128 &o) const { return a == o.a && b == o.b; }
};
struct H128Hash {
    size_t operator()(const H128 &h) const { return (size_t)(h.a ^ (h.b * 0x9E3779B97F4A7C15ULL)); }
};
inline H128 h128(const std::string &s) {
    return {vx::mix(vx::fnv(s.data(), s.size())), vx::mix(vx::fnv(s.data(), s.size(), 0x9E3779B97F4A7C15ULL) ^ s.size())};
}

template <typename Sys>
inline std::string hist_str(const Hist &h) {
    std::string s;
    for (size_t i = 0; i < h.size(); i++) {
        if (i) {
            s += " ; ";
        }
        s += Sys::op_name(h[i]);
    }
    return s.empty() ? "(initial)" : s;
}
inline std::string hist_ids(const Hist &h) {
    std::string s;
    for (size_t i = 0; i < h.size(); i++) {
        s += (i ? "," : "") + std::to_string(h[i]);
    }
    return s;
}

template <typename Sys>
struct Search {
    std::string name;
    int         max_depth  = 3;      // levels to expand (-1: to the fixed point)
    size_t      max_states = 4000000; // safety cap, reported when hit
    int         stage_index = 0;
    // state
    std::unordered_set<H128, H128Hash> seen;
    std::vector<Hist>                  frontier;
    int                                level = 0;
    bool                               capped = false;
    size_t                             per_chunk = 16;
    bool                               check_ledger = false; // C16: allocation ledger must be empty between transitions
    std::function<void(const Hist &, Sys &)> on_state; // optional extra per-state work (already replayed system)

    // replays a history without judging (the steps were judged when they were first explored)
    static bool replay(Sys &s, const Hist &h, std::string &err) {
        for (uint16_t op : h) {
            std::string e;
            if (!s.apply(op, e)) {
                err = "history is not replayable: op '" + Sys::op_name(op) + "' not applicable";
                return false;
            }
        }
        return true;
    }

    vx::Stage stage() {
        vx::Stage st;
        st.name   = name;
        st.hang_s = 120;
        {
            Sys s0;
            seen.insert(h128(s0.key()));
            frontier.push_back(Hist{});
        }
        st.prepare = [this]() -> int64_t {
            if (max_depth >= 0 && level >= max_depth) {
                return 0;
            }
            if (frontier.empty() || capped) {
                return 0;
            }
            return (int64_t)((frontier.size() + per_chunk - 1) / per_chunk);
        };
        st.fn = [this](int64_t chunk, vx::Ctx &ctx) {
            const int nops = Sys::num_ops();
            std::unordered_set<H128, H128Hash> local;
            size_t lo = (size_t)chunk * per_chunk, hi = std::min(frontier.size(), lo + per_chunk);
            for (size_t si = lo; si < hi; si++) {
                const Hist &h = frontier[si];
                for (int op = 0; op < nops; op++) {
                    // one case per transition, so that a crash is attributed to (and only costs) the operation that crashed
                    if (!ctx.next()) {
                        continue;
                    }
                    if (ctx.want_desc()) {
                        Hist h2 = h;
                        h2.push_back((uint16_t)op);
                        ctx.describe(name + ": " + hist_str<Sys>(h2), "custom stage=" + std::to_string(stage_index) + " " + hist_ids(h2));
                    }
#ifdef VX_LEDGER_HPP
                    if (check_ledger && (vx::ledger().live != 0 || vx::ledger().foreign != 0)) {
                        // every object of the previous transition is gone: nothing may be live, nothing foreign was released
                        Hist h2 = h;
                        if (op > 0) {
                            h2.push_back((uint16_t)(op - 1));
                        }
                        ctx.acc.fail(name + " [ledger]: " + hist_str<Sys>(h2),
                                     "after all objects were destroyed: live blocks=" + std::to_string(vx::ledger().live) +
                                         " foreign/double releases=" + std::to_string(vx::ledger().foreign),
                                     "custom stage=" + std::to_string(stage_index) + " " + hist_ids(h2));
                        vx::ledger().clear();
                    }
#endif
                    Sys         s;
                    std::string err;
                    if (!replay(s, h, err)) {
                        ctx.acc.fail("harness: " + name + " " + hist_str<Sys>(h), err, "");
                        break;
                    }
                    if (!s.apply(op, err)) {
                        continue;
                    }
                    ctx.acc.count("transitions");
                    if (!err.empty()) {
                        Hist h2 = h;
                        h2.push_back((uint16_t)op);
                        ctx.acc.fail(name + ": " + hist_str<Sys>(h2), err,
                                     "custom stage=" + std::to_string(stage_index) + " " + hist_ids(h2));
                        continue; // a wrong state is not extended
                    }
                    H128 k = h128(s.key());
                    if (seen.count(k) == 0 && local.insert(k).second) {
                        char b[96];
                        snprintf(b, sizeof b, "%016llx %016llx %zu %d", (unsigned long long)k.a, (unsigned long long)k.b, si, op);
                        ctx.acc.records.push_back(b);
                    }
                }
            }
        };
        st.collect = [this](vx::PoolResult &r) -> bool {
            // deterministic merge: order by (frontier index, op)
            struct Rec {
                H128   k;
                size_t si;
                int    op;
            };
            std::vector<Rec> recs;
            recs.reserve(r.acc.records.size());
            for (auto &line : r.acc.records) {
                Rec                x;
                unsigned long long a, b;
                if (sscanf(line.c_str(), "%llx %llx %zu %d", &a, &b, &x.si, &x.op) == 4) {
                    x.k = {a, b};
                    recs.push_back(x);
                }
            }
            std::sort(recs.begin(), recs.end(), [](const Rec &x, const Rec &y) { return x.si != y.si ? x.si < y.si : x.op < y.op; });
            std::vector<Hist> next;
            for (auto &x : recs) {
                if (seen.size() >= max_states) {
                    capped = true;
                    break;
                }
                if (seen.insert(x.k).second) {
                    Hist h = frontier[x.si];
                    h.push_back((uint16_t)x.op);
                    if ((seen.size() % 20011) == 1 || seen.size() == 7) {
                        r.acc.sample(name + ": " + hist_str<Sys>(h));
                    }
                    next.push_back(std::move(h));
                }
            }
            r.acc.count("states", next.size());
            r.acc.count(("levels_completed_" + name).c_str());
            frontier.swap(next);
            ++level;
            return !frontier.empty() && !capped;
        };
        st.replay = [this](const std::string &ids) -> int {
            Hist        h;
            const char *p = ids.c_str();
            bool        all_ops = false;
            while (*p) {
                if (*p == '*') {
                    all_ops = true;
                    break;
                }
                h.push_back((uint16_t)strtol(p, (char **)&p, 10));
                if (*p == ',') {
                    p++;
                }
            }
            if (all_ops) {
                // a worker died while expanding this state: run every operation from it (a crash here is the outcome)
                for (int op = 0; op < Sys::num_ops(); op++) {
                    Sys         s;
                    std::string err;
                    if (!replay(s, h, err)) {
                        printf("outcome: %s\n", err.c_str());
                        return 2;
                    }
                    printf("  %s ; %s\n", hist_str<Sys>(h).c_str(), Sys::op_name(op).c_str());
                    fflush(stdout);
                    if (s.apply(op, err) && !err.empty()) {
                        printf("outcome: violation: %s\n", err.c_str());
                        return 1;
                    }
                }
                printf("outcome: passed\n");
                return 0;
            }
            printf("replaying %s: %s\n", name.c_str(), hist_str<Sys>(h).c_str());
            Sys s;
            for (size_t i = 0; i < h.size(); i++) {
                std::string err;
                bool        ok = s.apply(h[i], err);
                printf("  step %zu %-28s %s  key=%s\n", i + 1, Sys::op_name(h[i]).c_str(), ok ? (err.empty() ? "ok" : err.c_str()) : "(not applicable)",
                       vx::esc(s.key()).substr(0, 120).c_str());
                if (!err.empty()) {
                    printf("outcome: violation\n");
                    return 1;
                }
            }
            printf("outcome: passed\n");
            return 0;
        };
        return st;
    }
    std::string summary() const {
        return name + ": levels=" + std::to_string(level) + " states=" + std::to_string(seen.size()) +
               (frontier.empty() ? " FIXED-POINT" : "") + (capped ? " STATE-CAP" : "");
    }
};

} // namespace seqx
#endif
