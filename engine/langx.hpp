// langx.hpp - engine E2: bounded-exhaustive enumeration of input languages.
//   * Sigma^{<=n}: every string of at most n tokens over an alphabet (prefix-tree walk; every node is a case),
//     plus "terminal-only" tokens that may appear in last position only (code-unit truncations of tokens);
//   * exact-size buffers: the text handed to the implementation ends exactly at the end of an allocation
//     (ASan redzone) or at a PROT_NONE page (fast builds).
#ifndef LANGX_HPP
#define LANGX_HPP
#include "vx.hpp"
#include <string>
#include <vector>

namespace langx {

using Text = std::u32string; // code units, widened; narrowed by plain conversion for the target width

inline Text T(const char *s) {
    Text t;
    while (*s) {
        t.push_back((unsigned char)*s++);
    }
    return t;
}
inline Text U(std::initializer_list<uint32_t> u) { return Text(u.begin(), u.end()); }

inline std::string show(const Text &t) {
    std::string s;
    char        b[16];
    for (char32_t c : t) {
        if (c == '\\') {
            s += "\\\\";
        } else if (c >= 0x20 && c < 0x7f) {
            s += char(c);
        } else {
            snprintf(b, sizeof b, "\\u{%X}", (unsigned)c);
            s += b;
        }
    }
    return s;
}

struct Alphabet {
    std::vector<Text> tokens;    // may appear anywhere
    std::vector<Text> terminals; // last position only
    // adds every proper non-empty prefix of every multi-unit token as a terminal (code-unit truncations)
    void add_truncations() {
        std::set<Text> seen(tokens.begin(), tokens.end());
        for (auto &t : tokens) {
            if (t.size() > 64) {
                continue; // fillers: truncation of a run of equal units is the same language
            }
            for (size_t n = 1; n < t.size(); n++) {
                Text p = t.substr(0, n);
                if (seen.insert(p).second) {
                    terminals.push_back(p);
                }
            }
        }
    }
};

inline int64_t ipow(int64_t b, int e) {
    int64_t r = 1;
    while (e-- > 0) {
        r *= b;
    }
    return r;
}

// Number of chunks for strings of at most n tokens when chunks are keyed by the first k tokens.
// chunk 0 .. |S|^k-1 : all strings whose first k tokens are the chunk's digits (length k..n)
// chunk |S|^k        : all strings shorter than k tokens
inline int64_t sigma_chunks(const Alphabet &a, int n, int k) {
    if (k > n) {
        k = n;
    }
    return ipow((int64_t)a.tokens.size(), k) + 1;
}

// f(text, ntokens) is called for every case of the chunk; the walk is deterministic.
// `visit` is called once per prefix-tree node (state), `f` per case (nodes plus terminal extensions).
template <typename F>
inline void sigma_walk(const Alphabet &a, int n, int k, int64_t chunk, vx::Ctx &ctx, F &&f) {
    const int64_t S = (int64_t)a.tokens.size();
    if (k > n) {
        k = n;
    }
    const int64_t full = ipow(S, k);
    Text          cur;
    // recursive extension
    std::function<void(int)> rec = [&](int len) {
        // the node itself
        ctx.acc.count("states");
        f(cur, len, false);
        if (len == n) {
            return;
        }
        for (auto &t : a.terminals) {
            size_t keep = cur.size();
            cur += t;
            ctx.acc.count("transitions");
            f(cur, len + 1, true);
            cur.resize(keep);
        }
        for (int64_t i = 0; i < S; i++) {
            size_t keep = cur.size();
            cur += a.tokens[(size_t)i];
            ctx.acc.count("transitions");
            rec(len + 1);
            cur.resize(keep);
        }
    };
    if (chunk == full) {
        // all strings with fewer than k tokens (each also gets its terminal extensions)
        std::function<void(int)> shortrec = [&](int len) {
            ctx.acc.count("states");
            f(cur, len, false);
            for (auto &t : a.terminals) {
                if (len + 1 > n) {
                    break;
                }
                size_t keep = cur.size();
                cur += t;
                ctx.acc.count("transitions");
                f(cur, len + 1, true);
                cur.resize(keep);
            }
            if (len + 1 < k) {
                for (int64_t i = 0; i < S; i++) {
                    size_t keep = cur.size();
                    cur += a.tokens[(size_t)i];
                    ctx.acc.count("transitions");
                    shortrec(len + 1);
                    cur.resize(keep);
                }
            }
        };
        shortrec(0);
        return;
    }
    int64_t c = chunk;
    std::vector<int64_t> digs(k);
    for (int i = k - 1; i >= 0; i--) {
        digs[i] = c % S;
        c /= S;
    }
    for (int i = 0; i < k; i++) {
        cur += a.tokens[(size_t)digs[i]];
    }
    ctx.acc.count("transitions", k ? 1 : 0);
    rec(k);
}

// Exact-size buffer for one case at a time.
template <typename C>
struct Exact {
#ifdef VX_ASAN
    C *p = nullptr;
    const C *put(const Text &t) {
        free(p);
        p = (C *)malloc(t.size() * sizeof(C) + (t.empty() ? 1 : 0));
        for (size_t i = 0; i < t.size(); i++) {
            p[i] = (C)t[i];
        }
        return p;
    }
    ~Exact() { free(p); }
#else
    vx::GuardBuf g{1u << 23};
    std::vector<C> tmp;
    const C       *put(const Text &t) {
        tmp.resize(t.size());
        for (size_t i = 0; i < t.size(); i++) {
            tmp[i] = (C)t[i];
        }
        return (const C *)g.place(tmp.data(), tmp.size() * sizeof(C));
    }
#endif
};

} // namespace langx
#endif
