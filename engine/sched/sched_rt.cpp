// sched_rt.cpp - controlled scheduler + access monitor (engine E4).  Compiled WITHOUT coverage instrumentation.
//
// The body TU is built with clang -fsanitize-coverage=trace-pc-guard,trace-loads,trace-stores, so every load and store
// of the code under test calls one of the hooks below.  The threads of a schedule run as ucontext coroutines on one OS
// thread (deterministic, sequentially consistent).  A hook classifies the address: the coroutine's own stack or a heap
// block the coroutine allocated itself during the concurrent phase is private; everything else is shared.  Every shared
// access is a scheduling point and is recorded in the per-granule reader/writer sets.
#include "sched_rt.hpp"
#include <ucontext.h>
#include <sys/mman.h>
#include <cstdlib>
#include <cstdio>
#include <cstring>
#include <map>
#include <new>

namespace {
constexpr int    MAXT       = 4;
constexpr size_t STACK_SIZE = 1u << 20;

template <typename T>
struct MallocAlloc {
    using value_type = T;
    MallocAlloc() = default;
    template <typename U>
    MallocAlloc(const MallocAlloc<U> &) {}
    T   *allocate(size_t n) { return (T *)malloc(n * sizeof(T)); }
    void deallocate(T *p, size_t) { free(p); }
    template <typename U>
    bool operator==(const MallocAlloc<U> &) const { return true; }
    template <typename U>
    bool operator!=(const MallocAlloc<U> &) const { return false; }
};
struct Block {
    size_t size;
    int    owner; // coroutine that allocated it during the concurrent phase, -1: shared
};
using BlockMap = std::map<uintptr_t, Block, std::less<uintptr_t>, MallocAlloc<std::pair<const uintptr_t, Block>>>;

ucontext_t main_ctx, ctxs[MAXT];
char      *stacks[MAXT];
int        cur        = -1;
bool       monitoring = false;
bool       finished[MAXT];
int        nthreads_g = 0;
bool       in_rt      = false; // re-entrancy guard for the allocation hooks
BlockMap  *blocks     = nullptr;
int        guard_depth = 0;    // inside __cxa_guard_acquire/release: no preemption

// granule table: open addressing, key = addr >> 3, value = readers | writers << 8
constexpr size_t GT = 1u << 16;
uintptr_t        gkey[GT];
uint16_t         gval[GT];
size_t           gused = 0;

const std::vector<uint8_t> *prefix_g = nullptr;
sched::RunResult           *res_g    = nullptr;
size_t                      pos_g    = 0;

void gt_clear() {
    memset(gkey, 0, sizeof gkey);
    memset(gval, 0, sizeof gval);
    gused = 0;
}
uint16_t &gt_slot(uintptr_t k) {
    size_t i = (size_t)((k * 0x9E3779B97F4A7C15ULL) >> 48) & (GT - 1);
    while (gkey[i] != 0 && gkey[i] != k) {
        i = (i + 1) & (GT - 1);
    }
    if (gkey[i] == 0) {
        gkey[i] = k;
        ++gused;
    }
    return gval[i];
}

bool is_private(uintptr_t a) {
    if (cur >= 0) {
        uintptr_t lo = (uintptr_t)stacks[cur];
        if (a >= lo && a < lo + STACK_SIZE) {
            return true;
        }
    }
    if (blocks != nullptr && !blocks->empty()) {
        auto it = blocks->upper_bound(a);
        if (it != blocks->begin()) {
            --it;
            if (a < it->first + it->second.size) {
                return it->second.owner == cur;
            }
        }
    }
    return false;
}

void switch_to(int next) {
    int prev = cur;
    cur      = next;
    swapcontext(&ctxs[prev], &ctxs[next]);
}

// one scheduling point; `cur_on`: the running thread can continue
void sched_point(bool cur_on) {
    int list[MAXT];
    int n = 0;
    if (cur_on) {
        list[n++] = cur;
    }
    for (int t = 0; t < nthreads_g; t++) {
        if (!finished[t] && !(cur_on && t == cur)) {
            list[n++] = t;
        }
    }
    if (n == 0) {
        return;
    }
    uint8_t choice = 0;
    if (pos_g < prefix_g->size()) {
        choice = (*prefix_g)[pos_g];
        if (choice >= n) {
            res_g->diverged = true;
            choice          = 0;
        }
    }
    ++pos_g;
    res_g->choices.push_back(choice);
    res_g->enabled.push_back((uint8_t)n);
    res_g->cur_enabled.push_back(cur_on ? 1 : 0);
    int next = list[choice];
    if (next != cur) {
        if (cur_on) {
            switch_to(next);
        } else {
            // the running thread is done: jump without saving it
            cur = next;
            setcontext(&ctxs[next]);
        }
    }
}

inline void on_access(void *addr, unsigned size, bool is_write) {
    if (!monitoring || cur < 0 || in_rt) {
        return;
    }
    uintptr_t a = (uintptr_t)addr;
    if (is_private(a)) {
        return;
    }
    ++res_g->shared_accesses;
    // the scheduling point comes BEFORE the access is performed and recorded
    if (guard_depth == 0) {
        sched_point(true);
    }
    for (uintptr_t g = a >> 3; g <= (a + size - 1) >> 3; g++) {
        uint16_t &v = gt_slot(g);
        v |= (uint16_t)(1u << (cur + (is_write ? 8 : 0)));
    }
}

void trampoline(int tid) {
    sched::body().thread_main(tid);
    finished[tid] = true;
    // pick the next thread (the finished one is not enabled); when none is left go back to the explorer
    bool any = false;
    for (int t = 0; t < nthreads_g; t++) {
        any = any || !finished[t];
    }
    if (any) {
        sched_point(false);
    }
    cur = -1;
    setcontext(&main_ctx);
}
} // namespace

extern "C" {
void __sanitizer_cov_trace_pc_guard_init(uint32_t *start, uint32_t *stop) {
    for (uint32_t *p = start; p < stop; p++) {
        *p = 1;
    }
}
void __sanitizer_cov_trace_pc_guard(uint32_t *) {}
void __sanitizer_cov_load1(uint8_t *a) { on_access(a, 1, false); }
void __sanitizer_cov_load2(uint16_t *a) { on_access(a, 2, false); }
void __sanitizer_cov_load4(uint32_t *a) { on_access(a, 4, false); }
void __sanitizer_cov_load8(uint64_t *a) { on_access(a, 8, false); }
void __sanitizer_cov_load16(void *a) { on_access(a, 16, false); }
void __sanitizer_cov_store1(uint8_t *a) { on_access(a, 1, true); }
void __sanitizer_cov_store2(uint16_t *a) { on_access(a, 2, true); }
void __sanitizer_cov_store4(uint32_t *a) { on_access(a, 4, true); }
void __sanitizer_cov_store8(uint64_t *a) { on_access(a, 8, true); }
void __sanitizer_cov_store16(void *a) { on_access(a, 16, true); }

// function-local statics with dynamic initialisation: the guard is a lock; no preemption while it is held
// (linked with -Wl,--wrap=__cxa_guard_acquire -Wl,--wrap=__cxa_guard_release)
int  __real___cxa_guard_acquire(void *);
void __real___cxa_guard_release(void *);
int  __wrap___cxa_guard_acquire(void *g) {
    int r = __real___cxa_guard_acquire(g);
    if (r != 0) {
        ++guard_depth;
    }
    return r;
}
void __wrap___cxa_guard_release(void *g) {
    __real___cxa_guard_release(g);
    if (guard_depth > 0) {
        --guard_depth;
    }
}
}

// allocation ownership (Qentem allocates through ::operator new / ::operator delete)
void *operator new(size_t n) {
    void *p = malloc(n ? n : 1);
    if (p == nullptr) {
        abort();
    }
    if (monitoring && !in_rt && blocks != nullptr) {
        in_rt = true;
        (*blocks)[(uintptr_t)p] = Block{n ? n : 1, cur};
        in_rt = false;
    }
    return p;
}
void *operator new[](size_t n) { return operator new(n); }
void  operator delete(void *p) noexcept {
    if (p == nullptr) {
        return;
    }
    if (blocks != nullptr && !in_rt) {
        in_rt = true;
        blocks->erase((uintptr_t)p);
        in_rt = false;
    }
    free(p);
}
void operator delete[](void *p) noexcept { operator delete(p); }
void operator delete(void *p, size_t) noexcept { operator delete(p); }
void operator delete[](void *p, size_t) noexcept { operator delete(p); }

namespace sched {
RunResult run_schedule(int nthreads, const std::vector<uint8_t> &prefix) {
    RunResult res;
    if (blocks == nullptr) {
        in_rt  = true;
        blocks = new (malloc(sizeof(BlockMap))) BlockMap();
        in_rt  = false;
    }
    for (int t = 0; t < nthreads; t++) {
        if (stacks[t] == nullptr) {
            stacks[t] = (char *)mmap(nullptr, STACK_SIZE, PROT_READ | PROT_WRITE, MAP_PRIVATE | MAP_ANONYMOUS, -1, 0);
        }
    }
    in_rt = true;
    blocks->clear();
    res.choices.reserve(4096);
    res.enabled.reserve(4096);
    res.cur_enabled.reserve(4096);
    in_rt = false;
    gt_clear();
    nthreads_g = nthreads;
    prefix_g   = &prefix;
    res_g      = &res;
    pos_g      = 0;
    for (int t = 0; t < nthreads; t++) {
        finished[t] = false;
        getcontext(&ctxs[t]);
        ctxs[t].uc_stack.ss_sp   = stacks[t];
        ctxs[t].uc_stack.ss_size = STACK_SIZE;
        ctxs[t].uc_link          = &main_ctx;
        makecontext(&ctxs[t], (void (*)())trampoline, 1, t);
    }
    monitoring = true;
    cur        = 0;
    swapcontext(&main_ctx, &ctxs[0]);
    // back here when every thread has finished
    monitoring = false;
    cur        = -1;
    // conflicts: a granule written by one thread and touched by another
    for (size_t i = 0; i < GT; i++) {
        if (gkey[i] == 0) {
            continue;
        }
        ++res.shared_granules;
        uint16_t v = gval[i];
        unsigned writers = v >> 8, readers = v & 0xFF;
        if (writers != 0 && ((writers | readers) & ~writers) != 0) {
            ++res.conflicts;
        } else if (writers != 0 && (writers & (writers - 1)) != 0) {
            ++res.conflicts; // two writers
        } else {
            continue;
        }
        if (res.first_conflict.empty()) {
            char b[96];
            snprintf(b, sizeof b, "granule %p readers=%02x writers=%02x", (void *)(gkey[i] << 3), readers, writers);
            res.first_conflict = b;
        }
    }
    return res;
}
} // namespace sched
