// sched_rt.hpp - interface between the un-instrumented scheduler runtime (sched_rt.cpp) and the instrumented body TU.
#ifndef SCHED_RT_HPP
#define SCHED_RT_HPP
#include <string>
#include <vector>
#include <cstdint>

namespace sched {
// provided by the instrumented body TU ------------------------------------------------------------------
struct Body {
    int  (*configs)();                         // number of (template, values) configurations
    void (*setup)(int config, int nthreads);   // serial: parse the cache, build values, compute the serial references
    void (*reset)();                           // serial: clear the per-thread output streams
    void (*thread_main)(int tid);              // the concurrent body: one render through the shared cache
    bool (*check)(std::string &err);           // serial: outputs == references, cache and values unchanged
    void (*teardown)();
    std::string (*describe)(int config);
    // sequential part: every history of <= depth cached renders / cache copies for one template; returns steps checked
    uint64_t (*sequential)(int tpl, int depth, std::string &err);
    int (*templates)();
};
const Body &body();

// provided by the runtime -----------------------------------------------------------------------------------
struct RunResult {
    std::vector<uint8_t> choices;     // choice taken at every scheduling point
    std::vector<uint8_t> enabled;     // number of enabled threads at that point
    std::vector<uint8_t> cur_enabled; // was the running thread still enabled (switching away = preemption)
    uint64_t             shared_accesses = 0;
    uint64_t             shared_granules = 0;
    uint64_t             conflicts       = 0; // granules written by one thread and touched by another
    std::string          first_conflict;
    bool                 diverged = false;    // the prefix asked for a choice that does not exist (hard error)
};
// runs the body's threads under the schedule: choices[i] for i < prefix.size(), then always 0 (keep running)
RunResult run_schedule(int nthreads, const std::vector<uint8_t> &prefix);
} // namespace sched
#endif
