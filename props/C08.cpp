// C08 - Stringify then Parse returns the same tree, and the text is valid JSON.
// (1) every Value state reached by the C12 search (removed members, holes, pointer members, empty containers, containers
//     that end in an omitted member); (2) a product set of container shapes over adversarial strings and extreme numbers,
//     in four character widths.
#include "value_sys.hpp"
#include "JSON.hpp"
#include "value_dump.hpp"
#include "utf_ref.hpp"
#include "json_ref.hpp"
#include "langx.hpp"

// ---------------------------------------------------------------------------------------------------------
// tree equality "as JSON documents": Undefined omitted, pointers dereferenced, numbers equal in value
template <typename C>
static bool num_equal(const Value<C> &a, const Value<C> &b) {
    auto ld = [](const Value<C> &v) -> long double {
        switch (v.GetNumberType()) {
            case QNumberType::Natural: return (long double)v.GetUInt64();
            case QNumberType::Integer: return (long double)v.GetInt64();
            default: return (long double)v.GetDouble();
        }
    };
    if (a.GetNumberType() == QNumberType::Real && b.GetNumberType() == QNumberType::Real) {
        double x = a.GetDouble(), y = b.GetDouble();
        return memcmp(&x, &y, 8) == 0; // bit-identical, including -0
    }
    return ld(a) == ld(b);
}

template <typename C>
static std::string same_doc(const Value<C> &a, const Value<C> &b, const std::string &path) {
    // a: original (may hold Undefined / pointers), b: re-parsed
    if (a.IsNumber() || b.IsNumber()) {
        if (!(a.IsNumber() && b.IsNumber()) || !num_equal(a, b)) {
            return path + ": numbers differ (" + ref::dump(a) + " vs " + ref::dump(b) + ")";
        }
        return "";
    }
    if (a.IsString()) {
        if (!b.IsString() || a.Length() != b.Length() || memcmp(a.StringStorage(), b.StringStorage(), a.Length() * sizeof(C)) != 0) {
            return path + ": strings differ (" + ref::dump(a) + " vs " + ref::dump(b) + ")";
        }
        return "";
    }
    if (a.IsTrue() || a.IsFalse() || a.IsNull()) {
        if (a.IsTrue() != b.IsTrue() || a.IsFalse() != b.IsFalse() || a.IsNull() != b.IsNull()) {
            return path + ": keyword differs";
        }
        return "";
    }
    if (a.IsArray()) {
        if (!b.IsArray()) {
            return path + ": expected an array back";
        }
        SizeT bi = 0;
        for (SizeT i = 0; i < a.Size(); i++) {
            const Value<C> *e = a.GetValue(i);
            if (e == nullptr || e->IsUndefined()) {
                continue; // omitted
            }
            const Value<C> *f = b.GetValue(bi);
            if (f == nullptr) {
                return path + ": element " + std::to_string(i) + " lost";
            }
            std::string r = same_doc(*e, *f, path + "[" + std::to_string(i) + "]");
            if (!r.empty()) {
                return r;
            }
            bi++;
        }
        return bi == b.Size() ? "" : path + ": extra elements after the round trip";
    }
    if (a.IsObject()) {
        if (!b.IsObject()) {
            return path + ": expected an object back";
        }
        SizeT bi = 0;
        for (SizeT i = 0; i < a.Size(); i++) {
            const Value<C>  *e = a.GetValue(i);
            const String<C> *k = a.GetKey(i);
            if (e == nullptr || k == nullptr || e->IsUndefined()) {
                continue;
            }
            const Value<C>  *f  = b.GetValue(bi);
            const String<C> *fk = b.GetKey(bi);
            if (f == nullptr || fk == nullptr) {
                return path + ": member lost";
            }
            if (!(*k == *fk)) {
                return path + ": member order / key differs at #" + std::to_string(bi);
            }
            std::string r = same_doc(*e, *f, path + "." + std::to_string(i));
            if (!r.empty()) {
                return r;
            }
            bi++;
        }
        return bi == b.Size() ? "" : path + ": extra members after the round trip";
    }
    return b.IsUndefined() ? "" : path + ": undefined became something";
}

template <typename C>
static bool units_well_formed(const C *p, size_t n, std::u32string &cps) {
    // decodes the target encoding into code points; false when ill-formed
    cps.clear();
    for (size_t i = 0; i < n;) {
        uint32_t u = (uint32_t)(typename std::make_unsigned<C>::type)p[i];
        if (sizeof(C) == 1) {
            int      len = u < 0x80 ? 1 : ((u >> 5) == 6 ? 2 : ((u >> 4) == 14 ? 3 : ((u >> 3) == 30 ? 4 : 0)));
            if (len == 0 || i + len > n) {
                return false;
            }
            uint32_t cp = len == 1 ? u : (u & (0x7F >> len));
            for (int k = 1; k < len; k++) {
                uint32_t c = (uint32_t)(unsigned char)p[i + k];
                if ((c & 0xC0) != 0x80) {
                    return false;
                }
                cp = (cp << 6) | (c & 0x3F);
            }
            static const uint32_t minv[5] = {0, 0, 0x80, 0x800, 0x10000};
            if (cp < minv[len] || !ref::is_scalar(cp)) {
                return false;
            }
            cps.push_back(cp);
            i += len;
        } else if (sizeof(C) == 2) {
            if (u >= 0xD800 && u <= 0xDBFF) {
                if (i + 1 >= n) {
                    return false;
                }
                uint32_t lo = (uint32_t)(typename std::make_unsigned<C>::type)p[i + 1];
                if (lo < 0xDC00 || lo > 0xDFFF) {
                    return false;
                }
                cps.push_back(0x10000 + ((u - 0xD800) << 10) + (lo - 0xDC00));
                i += 2;
            } else if (u >= 0xDC00 && u <= 0xDFFF) {
                return false;
            } else {
                cps.push_back(u);
                i++;
            }
        } else {
            if (!ref::is_scalar(u)) {
                return false;
            }
            cps.push_back(u);
            i++;
        }
    }
    return true;
}

// full oracle for one container value
template <typename C>
static std::string roundtrip(const Value<C> &v, bool strict_text) {
    if (!(v.IsArray() || v.IsObject())) {
        return "";
    }
    StringStream<C> ss;
    v.Stringify(ss, 17U);
    Value<C> w = JSON::Parse(ss.First(), ss.Length());
    std::string text;
    for (SizeT i = 0; i < ss.Length() && i < 300; i++) {
        uint32_t u = (uint32_t)(typename std::make_unsigned<C>::type)ss.First()[i];
        char     b[12];
        if (u >= 0x20 && u < 0x7f) {
            text += char(u);
        } else {
            snprintf(b, sizeof b, "\\x%X;", u);
            text += b;
        }
    }
    if (w.IsUndefined()) {
        return "own parser rejects the emitted text: " + text;
    }
    std::string d = same_doc(v, w, "$");
    if (!d.empty()) {
        return d + "  text: " + text;
    }
    StringStream<C> s2;
    w.Stringify(s2, 17U);
    if (s2.Length() != ss.Length() || memcmp(s2.First(), ss.First(), ss.Length() * sizeof(C)) != 0) {
        return "stringify-parse-stringify is not a fixed point: " + text;
    }
    if (strict_text) {
        std::u32string cps;
        if (units_well_formed(ss.First(), ss.Length(), cps)) {
            ref::JNode   n;
            ref::JParser rp(cps);
            if (!rp.parse(n)) {
                return "emitted text is not RFC 8259 JSON (a character that must be escaped is not?): " + text;
            }
            std::string c1;
            ref::canon(n, c1);
            // the reference tree must denote the same document: compare through the library's parse of the same text,
            // which C06 validates against the reference on its own
            (void)c1;
        }
    }
    return "";
}

struct V8Sys : VSys {
    bool apply(int op, std::string &err) {
        if (!VSys::apply(op, err)) {
            return false;
        }
        if (err.empty()) {
            std::string r = roundtrip(*R0, true);
            if (!r.empty()) {
                err = "R0 " + r;
            }
        }
        if (err.empty()) {
            std::string r = roundtrip(*R1, true);
            if (!r.empty()) {
                err = "R1 " + r;
            }
        }
        return true;
    }
};

// ---------------------------------------------------------------------------------------------------------
// product set
template <typename C>
static std::vector<std::basic_string<C>> string_pool() {
    using S = std::basic_string<C>;
    std::vector<S> v;
    for (unsigned u = 0; u < 0x80; u++) {
        v.push_back(S(1, (C)u));
    }
    // short strings over the characters that interact with escaping
    const C sp[5] = {C('"'), C('\\'), C(0), C(1), C('a')};
    for (int a = 0; a < 5; a++) {
        for (int b = 0; b < 5; b++) {
            v.push_back(S{sp[a], sp[b]});
            for (int c = 0; c < 5; c++) {
                v.push_back(S{sp[a], sp[b], sp[c]});
            }
        }
    }
    for (uint32_t cp : {0xE9u, 0x7FFu, 0x800u, 0x20ACu, 0xFFFDu, 0x10000u, 0x1F600u, 0x10FFFFu}) {
        std::vector<uint32_t> e;
        ref::encode(cp, (int)sizeof(C), e);
        S s;
        for (auto u : e) {
            s.push_back((C)u);
        }
        v.push_back(s);
        v.push_back(S(1, C('"')) + s + S(1, C('\\')));
    }
    v.push_back(S());
    v.push_back(S{C('/'), C('/')});
    v.push_back(S{C('\\'), C('u'), C('0'), C('0'), C('4'), C('1')}); // looks like an escape, is plain text
    return v;
}
static const double NUMS[] = {0.0, -0.0, 1.0, -1.0, 0.1, 1.0 / 3.0, 5e-324, 2.2250738585072014e-308, 1.7976931348623157e308, 1e21, 1e-7, 123456789.125,
                              9007199254740993.0, 1e15, 1e16, 1e17, 0.5, 100.0, 1e-5, 1e-4, 123456.789e-10, 2.5e-300, -7.25e200};
static const unsigned long long UNUMS[] = {0ULL, 1ULL, 9007199254740991ULL, 9007199254740993ULL, 9223372036854775807ULL, 9223372036854775808ULL,
                                           18446744073709551615ULL, 10000000000000000000ULL};
static const long long INUMS[] = {-1LL, -9223372036854775807LL - 1, -9007199254740993LL, -10LL};

template <typename C>
static void product_chunk(int64_t chunk, int64_t nch, vx::Ctx &ctx, const char *wn) {
    using S = std::basic_string<C>;
    static thread_local const std::vector<S> pool = string_pool<C>();
    const size_t nscal = pool.size() + sizeof(NUMS) / sizeof(NUMS[0]) + sizeof(UNUMS) / sizeof(UNUMS[0]) + sizeof(INUMS) / sizeof(INUMS[0]) + 3;
    auto mk = [&](size_t i, Value<C> &out, std::string &name) {
        if (i < pool.size()) {
            out  = Value<C>(pool[i].data(), SizeT(pool[i].size()));
            name = "string#" + std::to_string(i);
            return;
        }
        i -= pool.size();
        if (i < sizeof(NUMS) / sizeof(NUMS[0])) {
            out = NUMS[i];
            char b[40];
            snprintf(b, sizeof b, "double %.17g", NUMS[i]);
            name = b;
            return;
        }
        i -= sizeof(NUMS) / sizeof(NUMS[0]);
        if (i < sizeof(UNUMS) / sizeof(UNUMS[0])) {
            out  = SizeT64(UNUMS[i]);
            name = "uint " + std::to_string(UNUMS[i]);
            return;
        }
        i -= sizeof(UNUMS) / sizeof(UNUMS[0]);
        if (i < sizeof(INUMS) / sizeof(INUMS[0])) {
            out  = SizeT64I(INUMS[i]);
            name = "int " + std::to_string(INUMS[i]);
            return;
        }
        i -= sizeof(INUMS) / sizeof(INUMS[0]);
        if (i == 0) {
            out = true;
        } else if (i == 1) {
            out = false;
        } else {
            out = nullptr;
        }
        name = "keyword";
    };
    for (size_t i = (size_t)chunk; i < nscal; i += (size_t)nch) {
        for (int shape = 0; shape < 9; shape++) {
            if (!ctx.next()) {
                continue;
            }
            Value<C>    s, s2, root;
            std::string nm, nm2;
            mk(i, s, nm);
            mk((i * 7 + 3) % nscal, s2, nm2);
            const C ka[2] = {C('k'), 0};
            switch (shape) {
                case 0: root += s; break;                                      // [s]
                case 1: root[ka] = s; break;                                   // {"k":s}
                case 2: root[SizeT(0)][SizeT(0)] = s; break;                   // [[s]]
                case 3: root += s; root += s2; break;                          // [s,s2]
                case 4: root[ka][SizeT(0)] = s; root[ka] += s2; break;         // {"k":[s,s2]}
                case 5: root += s; root += s2; root.RemoveIndex(SizeT(1)); break; // [s,<hole>]  (comma patch)
                case 6: root += s2; root += s; root.RemoveIndex(SizeT(0)); break; // [<hole>,s]
                case 7: {                                                      // {s:s2} string as key
                    if (!s.IsString()) {
                        continue;
                    }
                    root.Get(s.StringStorage(), s.Length()) = s2;
                    break;
                }
                case 8: {                                                      // {"k":{s:1,"k":s}} then the first removed
                    Value<C> inner;
                    if (s.IsString()) {
                        inner.Get(s.StringStorage(), s.Length()) = SizeT64{1};
                    }
                    inner[ka] = s;
                    root[ka]  = inner;
                    break;
                }
            }
            if (ctx.want_desc()) {
                ctx.describe(std::string(wn) + " shape " + std::to_string(shape) + " with " + nm + " / " + nm2);
            }
            ctx.acc.count("states");
            ctx.acc.count("transitions");
            std::string r = roundtrip(root, true);
            if (!r.empty()) {
                ctx.fail(std::string(wn) + " shape " + std::to_string(shape) + " with " + nm + " / " + nm2, r);
            }
            if (i % 37 == 5 && shape == 4) {
                ctx.acc.sample(std::string(wn) + " shape " + std::to_string(shape) + " with " + nm + " / " + nm2);
            }
        }
    }
}

int main(int argc, char **argv) {
    return vx::standard_main(argc, argv, [](const vx::Args &a) {
        vx::Plan   plan;
        const bool th    = a.thorough();
        const int  depth = atoi(a.get("depth", th ? "4" : "3").c_str());
        const long cap   = atol(a.get("cap", th ? "1500000" : "300000").c_str());
        plan.engine = "seqx";
        plan.rule = "(1) every Value state reached by the C12 operation-history search (depth " + std::to_string(depth) + "): both registers are "
                    "stringified with 17 digits, parsed back and compared as documents (Undefined omitted, pointers dereferenced, numbers equal "
                    "in value, doubles bit-identical), stringify-parse-stringify must be a fixed point and well-formed text must pass a strict "
                    "RFC 8259 parser; (2) 9 container shapes (incl. holes before/after, strings as keys) over every 7-bit unit as a string, all "
                    "2- and 3-unit strings over {\" \\ NUL 0x01 a}, multi-byte code points, 23 doubles incl. -0/min/max/1e21, 64-bit boundary "
                    "integers, keywords, in char, char16_t, char32_t, wchar_t";
        plan.bounds = "depth=" + std::to_string(depth) + " cap=" + std::to_string(cap);
        static seqx::Search<V8Sys> s;
        s.name        = "Value<char> states";
        s.max_depth   = depth;
        s.max_states  = (size_t)cap;
        s.per_chunk   = 8;
        s.stage_index = 0;
        plan.stages.push_back(s.stage());
        {
            vx::Stage st;
            st.name   = "product";
            st.chunks = 64 * 4;
            st.fn     = [](int64_t chunk, vx::Ctx &ctx) {
                switch (chunk / 64) {
                    case 0: product_chunk<char>(chunk % 64, 64, ctx, "char"); break;
                    case 1: product_chunk<char16_t>(chunk % 64, 64, ctx, "char16_t"); break;
                    case 2: product_chunk<char32_t>(chunk % 64, 64, ctx, "char32_t"); break;
                    default: product_chunk<wchar_t>(chunk % 64, 64, ctx, "wchar_t"); break;
                }
            };
            plan.stages.push_back(st);
        }
        plan.evals_counter = "transitions";
        plan.finish = [](vx::Part &p) {
            p.distinct_extra = p.acc.counters["states"];
            p.bounds += " | " + s.summary();
            if (s.capped) {
                p.exhaustive = false;
            }
        };
        plan.assumptions = {"finite numbers only (the property's scope)", "the strict reference parser is ref/json_ref.hpp (validated by C06's python cross-check)"};
        return plan;
    });
}
