// C02 - rendering a well-formed template yields exactly the documented expansion.
// Engine E2 + independent reference interpreter: every template derivable from the documented grammar with <= k nodes
// (nesting <= 3) is rendered against 6 value trees in char and char32_t and compared with the reference expansion.
// The reference returns a small SET of admissible outputs where Documentation/Template.md and the pinned suite leave
// the behaviour open (see DESIGN.md Appendix A).
#include "tmpl_common.hpp"
#include "utf_ref.hpp"
#include "json_ref.hpp"
#include "expr_ref.hpp"
#include <memory>
#include <set>

using ref::JNode;

// ---------------------------------------------------------------------------------------------------------
// model values
static bool is_undef(const JNode &n) { return n.kind == JNode::Null && n.numeral == "#undef"; }
static std::string u8(const std::u32string &s) {
    std::string o;
    for (char32_t c : s) {
        o.push_back((char)c); // the value alphabets are ASCII
    }
    return o;
}
static const JNode *member(const JNode &n, const std::string &key) {
    if (n.kind == JNode::Obj) {
        for (auto &m : n.members) {
            if (u8(m.first) == key) {
                return is_undef(m.second) ? nullptr : &m.second;
            }
        }
        return nullptr;
    }
    if (n.kind == JNode::Arr) {
        if (key.empty()) {
            return nullptr; // not generated
        }
        for (char c : key) {
            if (c < '0' || c > '9') {
                return nullptr;
            }
        }
        if (key.size() > 9) {
            return nullptr; // beyond every array of the value trees (and beyond atoi)
        }
        size_t i = (size_t)atoi(key.c_str());
        if (i < n.items.size() && !is_undef(n.items[i])) {
            return &n.items[i];
        }
    }
    return nullptr;
}
#if defined(QENTEM_AUTO_ESCAPE_HTML) && (QENTEM_AUTO_ESCAPE_HTML == 0)
#define C02_ESCAPE_ON 0
#else
#define C02_ESCAPE_ON 1
#endif
static std::string esc_html(const std::string &s) {
    if (!C02_ESCAPE_ON) {
        return s; // a build with QENTEM_AUTO_ESCAPE_HTML=0 prints {var:} like {raw:}; everything else stays as documented
    }
    // the five entities; an '&' that already starts one of them is kept (idempotent) - validated by C03
    static const char *ent[5] = {"&amp;", "&lt;", "&gt;", "&quot;", "&apos;"};
    std::string        o;
    for (size_t i = 0; i < s.size(); i++) {
        char c = s[i];
        if (c == '&') {
            bool is_ent = false;
            for (auto e : ent) {
                if (s.compare(i, strlen(e), e) == 0) {
                    is_ent = true;
                }
            }
            o += is_ent ? "&" : "&amp;";
        } else if (c == '<') {
            o += "&lt;";
        } else if (c == '>') {
            o += "&gt;";
        } else if (c == '"') {
            o += "&quot;";
        } else if (c == '\'') {
            o += "&apos;";
        } else {
            o += c;
        }
    }
    return o;
}
static std::string fmt_real(double d) {
    char b[64];
    snprintf(b, sizeof b, "%.2f", d);
    std::string s = b;
    if (s.find('.') != std::string::npos) {
        while (!s.empty() && s.back() == '0') {
            s.pop_back();
        }
        if (!s.empty() && s.back() == '.') {
            s.pop_back();
        }
    }
    return s;
}
// text of a printable scalar; false for containers / nothing
static bool scalar_text(const JNode *n, std::string &out) {
    if (n == nullptr) {
        return false;
    }
    switch (n->kind) {
        case JNode::Str: out = u8(n->str); return true;
        case JNode::Int: out = n->numeral == "-0" ? "0" : n->numeral; return true;
        case JNode::Real: out = fmt_real(n->real); return true;
        case JNode::True: out = "true"; return true;
        case JNode::False: out = "false"; return true;
        case JNode::Null: out = "null"; return !is_undef(*n);
        default: return false;
    }
}

// ---------------------------------------------------------------------------------------------------------
// template AST
struct Path {
    std::vector<std::string> parts; // name, then indices
    std::string              src() const {
        std::string s = parts[0];
        for (size_t i = 1; i < parts.size(); i++) {
            s += "[" + parts[i] + "]";
        }
        return s;
    }
};
struct ExprSpec {
    // operands: literal (text + value) or variable path; ops between them; rendered with the given source text
    struct Opd {
        bool        is_var = false;
        std::string lit;
        RV          val;
        Path        path;
    };
    std::vector<Opd> opds;
    std::vector<int> ops;
    std::string      src;
};
struct TNode;
using Body = std::vector<std::shared_ptr<TNode>>;
struct TNode {
    enum K { Text, Var, Raw, Math, Svar, IIf, If, Loop } k = Text;
    std::string text; // Text
    Path        path; // Var/Raw/Svar name
    ExprSpec    expr; // Math / IIf case
    Body        subs; // Svar sub-tags (Var/Raw/Math)
    // IIf
    bool has_true = true, has_false = true;
    Body true_part, false_part; // Text + Var/Raw/Math
    int  attr_order = 0;        // 0: case true false; 1: true case false; 2: false case true (single quotes)
    // If: cases (expr, body); else body
    std::vector<std::pair<ExprSpec, Body>> cases;
    bool                                   has_else = false;
    Body                                   else_body;
    int                                    else_style = 0; // 0 "<else if ..>" "<else>"; 1 "<elseif .. />" "<else />"
    // Loop
    bool        has_set = true;
    Path        set;
    std::string value_name = "v";
    std::string group, sort; // optional
    Body        body;
};

static std::string src_of(const Body &b);
static std::string src_of(const TNode &n) {
    switch (n.k) {
        case TNode::Text: return n.text;
        case TNode::Var: return "{var:" + n.path.src() + "}";
        case TNode::Raw: return "{raw:" + n.path.src() + "}";
        case TNode::Math: return "{math:" + n.expr.src + "}";
        case TNode::Svar: {
            std::string s = "{svar:" + n.path.src();
            for (auto &x : n.subs) {
                s += ", " + src_of(*x);
            }
            return s + "}";
        }
        case TNode::IIf: {
            const char  q = n.attr_order == 2 ? '\'' : '"';
            std::string c = std::string(" case=") + q + n.expr.src + q;
            std::string t = n.has_true ? std::string(" true=") + q + src_of(n.true_part) + q : "";
            std::string f = n.has_false ? std::string(" false=") + q + src_of(n.false_part) + q : "";
            if (n.attr_order == 0) {
                return "{if" + c + t + f + "}";
            }
            if (n.attr_order == 1) {
                return "{if" + t + c + f + "}";
            }
            return "{if" + f + c + t + "}";
        }
        case TNode::If: {
            std::string s;
            for (size_t i = 0; i < n.cases.size(); i++) {
                if (i == 0) {
                    s += "<if case=\"" + n.cases[i].first.src + "\">";
                } else if (n.else_style == 0) {
                    s += "<else if case=\"" + n.cases[i].first.src + "\">";
                } else {
                    s += "<elseif case='" + n.cases[i].first.src + "' />";
                }
                s += src_of(n.cases[i].second);
            }
            if (n.has_else) {
                s += n.else_style == 0 ? "<else>" : "<else />";
                s += src_of(n.else_body);
            }
            return s + "</if>";
        }
        case TNode::Loop: {
            std::string s = "<loop";
            if (n.has_set) {
                s += " set=\"" + n.set.src() + "\"";
            }
            s += " value=\"" + n.value_name + "\"";
            if (!n.group.empty()) {
                s += " group=\"" + n.group + "\"";
            }
            if (!n.sort.empty()) {
                s += " sort=\"" + n.sort + "\"";
            }
            return s + ">" + src_of(n.body) + "</loop>";
        }
    }
    return "";
}
static std::string src_of(const Body &b) {
    std::string s;
    for (auto &n : b) {
        s += src_of(*n);
    }
    return s;
}

// ---------------------------------------------------------------------------------------------------------
// reference interpreter
struct LoopFrame {
    std::string  name;
    const JNode *item;
    std::string  key; // member key when the set is an object
};
struct Env {
    const JNode           *root;
    std::vector<LoopFrame> loops;
    std::vector<std::unique_ptr<JNode>> *owned; // grouped/sorted temporaries
};
using Alts = std::vector<std::string>; // admissible outputs

static Alts cross(const Alts &a, const Alts &b) {
    Alts r;
    for (auto &x : a) {
        for (auto &y : b) {
            std::string s = x + y;
            if (std::find(r.begin(), r.end(), s) == r.end() && r.size() < 16) {
                r.push_back(s);
            }
        }
    }
    return r;
}

struct Resolved {
    const JNode *node = nullptr;
    bool         is_loop_var = false;
    std::string  loop_key; // key of the innermost matching loop item (object sets)
    bool         indexed   = false;
};
static Resolved resolve(const Path &p, const Env &env) {
    Resolved     r;
    const JNode *cur = nullptr;
    for (size_t i = env.loops.size(); i-- > 0;) {
        if (env.loops[i].name == p.parts[0]) {
            r.is_loop_var = true;
            r.loop_key    = env.loops[i].key;
            cur           = env.loops[i].item;
            break;
        }
    }
    if (!r.is_loop_var) {
        cur = member(*env.root, p.parts[0]);
    }
    r.indexed = p.parts.size() > 1;
    for (size_t i = 1; i < p.parts.size() && cur != nullptr; i++) {
        cur = member(*cur, p.parts[i]);
    }
    r.node = cur;
    return r;
}

static RV operand_value(const ExprSpec::Opd &o, const Env &env) {
    if (!o.is_var) {
        return o.val;
    }
    Resolved r = resolve(o.path, env);
    if (r.node == nullptr) {
        return none();
    }
    auto tn = [](long double v, int kind, const std::string &s) {
        RV x   = num(v, kind);
        x.text = true;
        x.str  = s;
        return x;
    };
    switch (r.node->kind) {
        case JNode::Int:
            if (r.node->int_fits) {
                return r.node->neg ? num(-(long double)r.node->mag, 1) : num((long double)r.node->mag, 0);
            }
            return num(r.node->real, 2);
        case JNode::Real: return num(r.node->real, 2);
        case JNode::True: return tn(1, 0, "true");
        case JNode::False: return tn(0, 0, "false");
        case JNode::Null: return tn(0, 0, "null");
        case JNode::Str: {
            std::string s   = u8(r.node->str);
            char       *end = nullptr;
            long double v   = strtold(s.c_str(), &end);
            // numeric strings of the value alphabets: plain decimal numerals
            bool numeric = !s.empty() && *end == 0 && (isdigit((unsigned char)s[0]) || s[0] == '-');
            if (numeric) {
                return tn(v, (s.find('.') != std::string::npos) ? 2 : (v < 0 ? 1 : 0), s);
            }
            RV x;
            x.text = true;
            x.str  = s;
            return x;
        }
        default: return none(); // containers
    }
}
// value of an expression: set of admissible results; `var_only_truth`: a lone variable in a case
static RSet eval_expr(const ExprSpec &e, const Env &env) {
    std::vector<RSet> rs;
    for (auto &o : e.opds) {
        rs.push_back(RSet{operand_value(o, env)});
    }
    return eval_level(rs, e.ops, 1);
}
static std::string fmt_rv(const RV &r) {
    if (r.kind == 2) {
        return fmt_real((double)r.v);
    }
    char b[64];
    snprintf(b, sizeof b, "%.0Lf", r.v);
    return b;
}
// truth of a case: 1 true, 0 false, -1 unevaluable, -2 not judged
static std::vector<int> case_truth(const ExprSpec &e, const Env &env) {
    std::vector<int> out;
    if (e.opds.size() == 1 && e.opds[0].is_var) {
        // variable-only case: a number > 0, true, or a non-empty string
        Resolved r = resolve(e.opds[0].path, env);
        RV       v = operand_value(e.opds[0], env);
        if (r.node != nullptr && r.node->kind == JNode::Str) {
            if (v.has) {
                out.push_back(v.v > 0 ? 1 : 0); // numeric string: its number
            } else {
                out.push_back(u8(r.node->str).empty() ? 0 : 1);
            }
        } else if (v.has) {
            out.push_back(v.v > 0 ? 1 : 0);
        } else {
            out.push_back(0); // missing / container: counts as false
        }
        return out;
    }
    for (auto &r : eval_expr(e, env)) {
        if (r.unspec) {
            return {-2};
        }
        int t = r.has ? (r.v > 0 ? 1 : 0) : -1;
        if (std::find(out.begin(), out.end(), t) == out.end()) {
            out.push_back(t);
        }
    }
    return out;
}

static bool g_judge_iif_order = false;
// the two points the document leaves open are resolved uniformly per rendering (4 admissible outputs at most):
static bool g_op1_key          = false; // {var:NAME[path]} unresolved inside an object loop: the member key instead of the tag
static bool g_uneval_iif_false = false; // {if} with an unevaluable case: the false part instead of nothing
static Alts expand(const Body &b, Env &env, bool &judged);
static Alts expand(const TNode &n, Env &env, bool &judged) {
    switch (n.k) {
        case TNode::Text: return {n.text};
        case TNode::Var:
        case TNode::Raw: {
            const bool  esc = n.k == TNode::Var;
            Resolved    r   = resolve(n.path, env);
            std::string t;
            if (scalar_text(r.node, t)) {
                // only strings are escaped (numbers and keywords contain no special characters anyway)
                return {esc ? esc_html(t) : t};
            }
            std::string verbatim = src_of(n);
            if (!esc) {
                return {verbatim};
            }
            verbatim = esc_html(verbatim);
            if (r.is_loop_var && !r.loop_key.empty()) {
                if (!r.indexed) {
                    return {esc_html(r.loop_key)}; // documented by Loop Example 9
                }
                return {g_op1_key ? esc_html(r.loop_key) : verbatim}; // open point OP1
            }
            return {verbatim};
        }
        case TNode::Math: {
            Alts out;
            if (n.expr.opds.size() == 1 && n.expr.opds[0].is_var) {
                RV v = operand_value(n.expr.opds[0], env);
                if (!v.has || v.text) {
                    judged = false; // a lone non-numeric variable in a math tag: the document is silent
                    return {""};
                }
            }
            for (auto &r : eval_expr(n.expr, env)) {
                if (r.unspec || r.inexact) {
                    judged = false;
                    return {""};
                }
                std::string s = r.has ? fmt_rv(r) : src_of(n);
                if (r.has && r.kind == 2) {
                    long double sc = r.v * 100;
                    if (sc != floorl(sc)) {
                        judged = false; // needs rounding: formatting is C10's subject
                        return {""};
                    }
                }
                if (std::find(out.begin(), out.end(), s) == out.end()) {
                    out.push_back(s);
                }
            }
            return out;
        }
        case TNode::Svar: {
            Resolved    r = resolve(n.path, env);
            std::string phrase;
            if (r.node == nullptr || r.node->kind != JNode::Str) {
                if (r.node != nullptr && (r.node->kind == JNode::True || r.node->kind == JNode::False || (r.node->kind == JNode::Null && !is_undef(*r.node)))) {
                    judged = false; // boolean/null phrase: the document is silent
                    return {""};
                }
                return {src_of(n)};
            }
            phrase = u8(r.node->str);
            Alts        out  = {""};
            std::string lit;
            for (size_t i = 0; i < phrase.size();) {
                if (phrase[i] == '{' && i + 2 < phrase.size() && phrase[i + 2] == '}' && phrase[i + 1] >= '0' && phrase[i + 1] <= '9' &&
                    (size_t)(phrase[i + 1] - '0') < n.subs.size()) {
                    out = cross(out, {esc_html(lit)});
                    lit.clear();
                    out = cross(out, expand(*n.subs[(size_t)(phrase[i + 1] - '0')], env, judged));
                    i += 3;
                } else {
                    lit += phrase[i++];
                }
            }
            return cross(out, {esc_html(lit)});
        }
        case TNode::IIf: {
            Alts out;
            if (n.attr_order != 0 && !g_judge_iif_order) {
                // attributes in an order other than case-first: documented as fine ("{if true=.. case=..} // OK"), not implemented;
                // judged once by the dedicated stage (known finding), not inside every composite template
                judged = false;
                return {""};
            }
            for (int t : case_truth(n.expr, env)) {
                if (t == -2) {
                    judged = false;
                    return {""};
                }
                Alts tp = n.has_true ? expand(n.true_part, env, judged) : Alts{""};
                Alts fp = n.has_false ? expand(n.false_part, env, judged) : Alts{""};
                Alts add;
                if (t == 1) {
                    add = tp;
                } else if (t == 0) {
                    add = fp;
                } else if (g_uneval_iif_false) {
                    add = fp; // "otherwise false's value is used" ...
                } else {
                    add = {""}; // ... the pinned suite prints nothing for an unevaluable case
                }
                for (auto &s : add) {
                    if (std::find(out.begin(), out.end(), s) == out.end()) {
                        out.push_back(s);
                    }
                }
            }
            return out;
        }
        case TNode::If: {
            // first satisfied case wins; unevaluable counts as not satisfied
            std::vector<std::pair<Alts, bool>> branches; // for set-valued truth keep it simple: require single-valued
            for (size_t i = 0; i < n.cases.size(); i++) {
                std::vector<int> t = case_truth(n.cases[i].first, env);
                if (t.size() != 1 || t[0] == -2) {
                    judged = false;
                    return {""};
                }
                if (t[0] == 1) {
                    return expand(n.cases[i].second, env, judged);
                }
            }
            if (n.has_else) {
                return expand(n.else_body, env, judged);
            }
            return {""};
        }
        case TNode::Loop: {
            const JNode *set = env.root;
            if (n.has_set) {
                set = resolve(n.set, env).node;
            }
            if (set == nullptr) {
                return {""};
            }
            // group
            if (!n.group.empty()) {
                if (set->kind != JNode::Arr || set->items.empty()) {
                    return {""};
                }
                auto g  = std::make_unique<JNode>();
                g->kind = JNode::Obj;
                for (auto &it : set->items) {
                    if (it.kind != JNode::Obj) {
                        return {""};
                    }
                    const JNode *kv = member(it, n.group);
                    std::string  kt;
                    if (kv == nullptr || !scalar_text(kv, kt)) {
                        return {""};
                    }
                    JNode rest;
                    rest.kind = JNode::Obj;
                    for (auto &m : it.members) {
                        if (u8(m.first) != n.group && !is_undef(m.second)) {
                            rest.members.push_back(m);
                        }
                    }
                    std::u32string k32(kt.begin(), kt.end());
                    bool           found = false;
                    for (auto &gm : g->members) {
                        if (gm.first == k32) {
                            gm.second.items.push_back(rest);
                            found = true;
                        }
                    }
                    if (!found) {
                        JNode arr;
                        arr.kind = JNode::Arr;
                        arr.items.push_back(rest);
                        g->members.emplace_back(k32, arr);
                    }
                }
                set = g.get();
                env.owned->push_back(std::move(g));
            }
            if (!n.sort.empty()) {
                auto c = std::make_unique<JNode>(*set);
                const bool asc = n.sort == "ascend";
                if (c->kind == JNode::Obj) {
                    std::stable_sort(c->members.begin(), c->members.end(), [&](const std::pair<std::u32string, JNode> &x, const std::pair<std::u32string, JNode> &y) {
                        return asc ? x.first < y.first : y.first < x.first;
                    });
                } else if (c->kind == JNode::Arr) {
                    // uniform arrays of numbers or of strings only (mixed kinds: the order between kinds is C15's subject)
                    bool allnum = true, allstr = true;
                    for (auto &it : c->items) {
                        allnum = allnum && (it.kind == JNode::Int || it.kind == JNode::Real);
                        allstr = allstr && it.kind == JNode::Str;
                    }
                    bool samekind = true;
                    for (auto &it : c->items) {
                        samekind = samekind && it.kind == c->items[0].kind && (it.kind != JNode::Int || it.neg == c->items[0].neg);
                    }
                    if (!(allnum || allstr) || !samekind) {
                        if (c->items.size() > 1) {
                            judged = false;
                            return {""};
                        }
                    } else if (allnum) {
                        std::stable_sort(c->items.begin(), c->items.end(), [&](const JNode &x, const JNode &y) { return asc ? x.real < y.real : y.real < x.real; });
                    } else {
                        std::stable_sort(c->items.begin(), c->items.end(), [&](const JNode &x, const JNode &y) { return asc ? x.str < y.str : y.str < x.str; });
                    }
                }
                set = c.get();
                env.owned->push_back(std::move(c));
            }
            Alts out = {""};
            if (set->kind == JNode::Obj) {
                for (auto &m : set->members) {
                    if (is_undef(m.second)) {
                        continue;
                    }
                    env.loops.push_back({n.value_name, &m.second, u8(m.first)});
                    out = cross(out, expand(n.body, env, judged));
                    env.loops.pop_back();
                }
            } else if (set->kind == JNode::Arr) {
                for (auto &it : set->items) {
                    if (is_undef(it)) {
                        continue;
                    }
                    env.loops.push_back({n.value_name, &it, ""});
                    out = cross(out, expand(n.body, env, judged));
                    env.loops.pop_back();
                }
            }
            return out;
        }
    }
    return {""};
}
static Alts expand(const Body &b, Env &env, bool &judged) {
    Alts out = {""};
    for (auto &n : b) {
        out = cross(out, expand(*n, env, judged));
        if (!judged) {
            return {""};
        }
    }
    return out;
}

// ---------------------------------------------------------------------------------------------------------
// value trees: JSON text + removals applied to both sides
struct VSpec {
    const char *name;
    const char *json;
    std::vector<std::vector<std::string>> remove; // paths to remove (object member or array index)
};
static std::vector<VSpec> value_specs() {
    return {
        {"base",
         R"({"a":1,"s":"<b>&","f":2.5,"t":true,"u":null,"e":"","ns":"12","z":0,"arr":[1,2],"o":{"k1":[7],"k2":"x","k3":{}},"b":[3,1,{"a":"x"}],"nums":[3,1,2],"strs":["b","a","c"],"g":[{"y":1,"a":2},{"y":2,"a":3},{"y":1,"a":4}],"p":"P{0}-{1}-{2}{3}","q":"<{0}>","vx":"VX","wv":["W0"]})",
         {}},
        {"wrong-kinds", R"({"a":"text","s":5,"f":-0.5,"t":false,"b":{"x":1,"yy":[2]},"o":[1,2],"nums":[],"strs":"str","g":[],"p":7,"q":"{0}{0}","z":"0"})", {}},
        {"numbers", R"({"a":-3,"f":3.0,"z":1.25,"ns":"-3","nums":[2.5,-1.5,10.25],"b":[0],"o":{},"s":"","p":"","q":"q","g":[{"y":"k","a":1}],"strs":["z"],"e":"e","t":0,"u":7})", {}},
        {"array-root", R"([1,"two",[3],{"a":4}])", {}},
        {"removed-members",
         R"({"a":1,"s":"gone","f":2.5,"o":{"k1":[7],"k2":"x","k3":{}},"b":[3,1,{"a":"x"}],"nums":[3,1,2],"g":[{"y":1,"r":0,"a":2},{"y":2,"a":3}],"p":"P{0}","q":"<{0}>","z":0})",
         {{"s"}, {"b", "1"}, {"o", "k1"}, {"g", "0", "r"}}},
        {"empty", R"({})", {}},
    };
}
template <typename C>
static Value<C> build_value(const VSpec &vs) {
    Value<C> v = from_json<C>(vs.json);
    for (auto &path : vs.remove) {
        Value<C> *cur = &v;
        for (size_t i = 0; i + 1 < path.size(); i++) {
            std::basic_string<C> k(path[i].begin(), path[i].end());
            cur = cur->GetValue(k.data(), SizeT(k.size()));
        }
        std::basic_string<C> k(path.back().begin(), path.back().end());
        if (cur->IsArray()) {
            cur->RemoveIndex(SizeT(atoi(path.back().c_str())));
        } else {
            cur->Remove(k.data(), SizeT(k.size()));
        }
    }
    return v;
}
static JNode build_model(const VSpec &vs) {
    std::u32string t;
    for (const char *p = vs.json; *p; p++) {
        t.push_back((unsigned char)*p);
    }
    JNode        n;
    ref::JParser jp(t);
    if (!jp.parse(n)) {
        fprintf(stderr, "bad value json %s\n", vs.name);
        abort();
    }
    for (auto &path : vs.remove) {
        JNode *cur = &n;
        for (size_t i = 0; i + 1 < path.size(); i++) {
            cur = const_cast<JNode *>(member(*cur, path[i]));
        }
        if (cur->kind == JNode::Arr) {
            JNode u;
            u.kind    = JNode::Null;
            u.numeral = "#undef";
            cur->items[(size_t)atoi(path.back().c_str())] = u;
        } else {
            for (size_t i = 0; i < cur->members.size(); i++) {
                if (u8(cur->members[i].first) == path.back()) {
                    cur->members.erase(cur->members.begin() + (long)i);
                    break;
                }
            }
        }
    }
    return n;
}

// ---------------------------------------------------------------------------------------------------------
// generator
static std::shared_ptr<TNode> mk(TNode::K k) {
    auto n = std::make_shared<TNode>();
    n->k   = k;
    return n;
}
static Path P(std::initializer_list<const char *> l) {
    Path p;
    for (auto s : l) {
        p.parts.push_back(s);
    }
    return p;
}
static ExprSpec::Opd L(const char *lit, long double v, int kind) {
    ExprSpec::Opd o;
    o.lit = lit;
    o.val = num(v, kind);
    return o;
}
static ExprSpec::Opd VP(Path p) {
    ExprSpec::Opd o;
    o.is_var = true;
    o.path   = p;
    return o;
}
static int opi(const char *s) {
    for (int i = 0; i < 16; i++) {
        if (strcmp(OPS[i], s) == 0) {
            return i;
        }
    }
    return 0;
}
static ExprSpec E(std::vector<ExprSpec::Opd> o, std::vector<const char *> ops, bool spaces = false) {
    ExprSpec e;
    e.opds = o;
    for (auto s : ops) {
        e.ops.push_back(opi(s));
    }
    for (size_t i = 0; i < o.size(); i++) {
        if (i) {
            e.src += std::string(spaces ? " " : "") + ops[i - 1] + (spaces ? " " : "");
        }
        e.src += o[i].is_var ? "{var:" + o[i].path.src() + "}" : o[i].lit;
    }
    return e;
}
static std::shared_ptr<TNode> text(const char *t) {
    auto n  = mk(TNode::Text);
    n->text = t;
    return n;
}
static std::shared_ptr<TNode> var(Path p, bool raw = false) {
    auto n  = mk(raw ? TNode::Raw : TNode::Var);
    n->path = p;
    return n;
}
static std::shared_ptr<TNode> math(ExprSpec e) {
    auto n  = mk(TNode::Math);
    n->expr = e;
    return n;
}

struct Gen {
    std::vector<std::shared_ptr<TNode>> leaves, loop_leaves;
    std::vector<ExprSpec>               cases;
    Gen() {
        for (auto p : {P({"a"}), P({"s"}), P({"f"}), P({"t"}), P({"u"}), P({"e"}), P({"ns"}), P({"arr"}), P({"o"}), P({"missing"}), P({"b", "0"}), P({"b", "2", "a"}),
                       P({"o", "k1", "0"}), P({"o", "zz"}), P({"a", "x"}), P({"arr", "5"}), P({"arr", "4294967297"}), P({"b", "x"})}) {
            leaves.push_back(var(p));
        }
        for (auto p : {P({"s"}), P({"f"}), P({"o"}), P({"missing"}), P({"b", "2", "a"})}) {
            leaves.push_back(var(p, true));
        }
        leaves.push_back(text("plain <text> & {not a tag} "));
        leaves.push_back(text("<iframe src=\"q\"></iframe><loops>{variable}")); // words that merely start like a tag name are text
        leaves.push_back(math(E({L("1", 1, 0), L("2", 2, 0)}, {"+"})));
        leaves.push_back(math(E({VP(P({"a"})), L("1", 1, 0)}, {"+"})));
        leaves.push_back(math(E({VP(P({"f"})), L("2", 2, 0)}, {"*"}, true)));
        leaves.push_back(math(E({VP(P({"ns"})), L("2", 2, 0)}, {"*"})));
        leaves.push_back(math(E({VP(P({"missing"})), L("1", 1, 0)}, {"+"})));
        leaves.push_back(math(E({L("1", 1, 0), L("0", 0, 0)}, {"/"})));
        leaves.push_back(math(E({VP(P({"s"})), L("1", 1, 0)}, {"+"})));
        leaves.push_back(math(E({L("2", 2, 0), L("3", 3, 0), VP(P({"a"}))}, {"+", "*"})));
        leaves.push_back(math(E({VP(P({"a"}))}, {})));
        leaves.push_back(math(E({VP(P({"b", "0"})), VP(P({"z"}))}, {">="}, true)));
        {
            auto n  = mk(TNode::Svar);
            n->path = P({"p"});
            n->subs = {var(P({"a"})), math(E({L("1", 1, 0), L("1", 1, 0)}, {"+"})), var(P({"s"}), true)};
            leaves.push_back(n);
            auto n2  = mk(TNode::Svar);
            n2->path = P({"q"});
            n2->subs = {var(P({"s"}))};
            leaves.push_back(n2);
            auto n3  = mk(TNode::Svar);
            n3->path = P({"missing"});
            n3->subs = {var(P({"a"}))};
            leaves.push_back(n3);
            auto n4  = mk(TNode::Svar);
            n4->path = P({"a"});
            n4->subs = {var(P({"missing"}))};
            leaves.push_back(n4);
        }
        auto iif = [&](ExprSpec c, Body t, Body f, bool ht, bool hf, int order) {
            auto n        = mk(TNode::IIf);
            n->expr       = c;
            n->true_part  = t;
            n->false_part = f;
            n->has_true   = ht;
            n->has_false  = hf;
            n->attr_order = order;
            return n;
        };
        leaves.push_back(iif(E({VP(P({"a"}))}, {}), {text("T")}, {text("F")}, true, true, 0));
        leaves.push_back(iif(E({VP(P({"z"})), L("0", 0, 0)}, {"=="}), {var(P({"a"}))}, {var(P({"s"}), true)}, true, true, 1));
        leaves.push_back(iif(E({L("0", 0, 0)}, {}), {text("T")}, {text("F")}, true, true, 2));
        leaves.push_back(iif(E({VP(P({"e"}))}, {}), {text("T")}, {text("F")}, true, true, 0));
        leaves.push_back(iif(E({VP(P({"s"}))}, {}), {text("non-empty")}, {}, true, false, 0));
        leaves.push_back(iif(E({VP(P({"missing"})), L("1", 1, 0)}, {"+"}), {text("T")}, {text("F")}, true, true, 0));
        leaves.push_back(iif(E({VP(P({"f"})), L("2", 2, 0)}, {">"}), {text("big "), math(E({VP(P({"f"})), L("2", 2, 0)}, {"-"}))}, {text("small")}, true, true, 0));
        leaves.push_back(iif(E({VP(P({"t"}))}, {}), {}, {text("only-false")}, false, true, 0));
        // a closing brace as plain text inside a value, next to a sub-tag
        leaves.push_back(iif(E({L("1", 1, 0)}, {}), {var(P({"a"}))}, {text("{F}")}, true, true, 0));
        leaves.push_back(iif(E({VP(P({"z"}))}, {}), {text("{T}")}, {var(P({"a"})), text("}")}, true, true, 0));
        leaves.push_back(iif(E({VP(P({"a"})), L("9", 9, 0)}, {"-"}), {text("T")}, {text("below")}, true, true, 0));
        // inside loops with value "v" (and "w" one level deeper)
        for (auto p : {P({"v"}), P({"v", "a"}), P({"v", "0"}), P({"v", "zz"}), P({"a"})}) {
            loop_leaves.push_back(var(p));
        }
        loop_leaves.push_back(var(P({"v"}), true));
        loop_leaves.push_back(var(P({"vx"})));      // a root member whose name merely starts with the loop's value name
        loop_leaves.push_back(var(P({"wv", "0"}))); // same, with the inner loop's name "w" and an index
        loop_leaves.push_back(text(","));
        loop_leaves.push_back(math(E({VP(P({"v"})), L("1", 1, 0)}, {"+"})));
        loop_leaves.push_back(iif(E({VP(P({"v"})), L("1", 1, 0)}, {">"}), {var(P({"v"}))}, {text("-")}, true, true, 0));
        cases = {E({VP(P({"a"})), L("1", 1, 0)}, {"=="}), E({VP(P({"z"}))}, {}), E({L("0", 0, 0)}, {}), E({VP(P({"missing"}))}, {}),
                 E({VP(P({"f"})), L("2", 2, 0), L("1", 1, 0)}, {">", "&&"}, true), E({VP(P({"s"}))}, {}), E({VP(P({"s"})), L("1", 1, 0)}, {"+"}),
                 E({VP(P({"a"})), L("9", 9, 0)}, {"-"}) /* below zero: not satisfied */};
    }
    // enumerate templates with <= k nodes; f(body)
    void bodies(int budget, int depth, bool in_loop, int maxlen, const std::function<void(const Body &, int)> &k) {
        std::function<void(Body &, int, int)> rec = [&](Body &cur, int used, int count) {
            k(cur, used);
            if (count >= maxlen || used >= budget) {
                return;
            }
            node(budget - used, depth, in_loop, [&](std::shared_ptr<TNode> n, int u) {
                cur.push_back(n);
                rec(cur, used + u, count + 1);
                cur.pop_back();
            });
        };
        Body cur;
        rec(cur, 0, 0);
    }
    void node(int budget, int depth, bool in_loop, const std::function<void(std::shared_ptr<TNode>, int)> &k) {
        if (budget < 1) {
            return;
        }
        for (auto &l : (in_loop ? loop_leaves : leaves)) {
            k(l, 1);
        }
        if (depth >= 3 || budget < 2) {
            return;
        }
        // if / else-if / else
        for (size_t c = 0; c < cases.size(); c++) {
            for (int shape = 0; shape < 4; shape++) {
                bodies(budget - 1, depth + 1, in_loop, 1, [&](const Body &b1, int u1) {
                    if (b1.empty()) {
                        return;
                    }
                    auto n = mk(TNode::If);
                    n->cases.push_back({cases[c], b1});
                    if (shape == 0) {
                        k(n, 1 + u1);
                        return;
                    }
                    n->has_else   = shape != 2;
                    n->else_style = shape == 3 ? 1 : 0;
                    n->else_body  = {text("E")};
                    if (shape >= 2) {
                        n->cases.push_back({cases[(c + 1) % cases.size()], {text("C2")}});
                    }
                    k(n, 1 + u1);
                });
            }
        }
        // loops
        struct LS {
            bool        has_set;
            Path        set;
            const char *group;
            const char *sort;
        };
        std::vector<LS> ls = {{true, P({"b"}), "", ""},     {true, P({"o"}), "", ""},         {true, P({"nums"}), "", "ascend"}, {true, P({"nums"}), "", "descend"},
                              {true, P({"strs"}), "", "ascend"}, {true, P({"o"}), "", "descend"}, {true, P({"g"}), "y", ""},        {true, P({"g"}), "y", "descend"},
                              {false, P({"b"}), "", ""},     {true, P({"missing"}), "", ""},   {true, P({"a"}), "", ""},          {true, P({"o", "k1"}), "", ""}};
        if (in_loop) {
            ls = {{true, P({"v"}), "", ""}, {true, P({"v", "a"}), "", ""}};
        }
        for (auto &l : ls) {
            bodies(budget - 1, depth + 1, true, 2, [&](const Body &b1, int u1) {
                auto n        = mk(TNode::Loop);
                n->has_set    = l.has_set;
                n->set        = l.set;
                n->group      = l.group;
                n->sort       = l.sort;
                n->value_name = in_loop ? "w" : "v";
                n->body       = b1;
                if (in_loop) {
                    // the inner loop binds "w": rewrite the loop leaves of the body from v to w
                    Body b2;
                    for (auto &x : b1) {
                        auto y = std::make_shared<TNode>(*x);
                        auto fix = [](Path &p) {
                            if (!p.parts.empty() && p.parts[0] == "v") {
                                p.parts[0] = "w";
                            }
                        };
                        fix(y->path);
                        for (auto &o : y->expr.opds) {
                            if (o.is_var) {
                                fix(o.path);
                            }
                        }
                        // rebuild the expression source
                        if (!y->expr.opds.empty()) {
                            std::string s;
                            for (size_t i = 0; i < y->expr.opds.size(); i++) {
                                if (i) {
                                    s += OPS[y->expr.ops[i - 1]];
                                }
                                s += y->expr.opds[i].is_var ? "{var:" + y->expr.opds[i].path.src() + "}" : y->expr.opds[i].lit;
                            }
                            y->expr.src = s;
                        }
                        for (auto &tp : y->true_part) {
                            auto z = std::make_shared<TNode>(*tp);
                            fix(z->path);
                            tp = z;
                        }
                        b2.push_back(y);
                    }
                    n->body = b2;
                }
                k(n, 1 + u1);
            });
        }
    }
};

// ---------------------------------------------------------------------------------------------------------
template <typename C>
static std::string render(const std::string &tpl, const Value<C> &v) {
    std::basic_string<C> w(tpl.begin(), tpl.end());
    langx::Text          t(tpl.begin(), tpl.end());
    static thread_local langx::Exact<C> ex;
    const C                            *p = ex.put(t);
    StringStream<C>                     ss;
    Template::Render(p, SizeT(t.size()), v, ss);
    std::string out;
    for (SizeT i = 0; i < ss.Length(); i++) {
        out.push_back((char)ss.First()[i]);
    }
    return out;
}

int main(int argc, char **argv) {
    return vx::standard_main(argc, argv, [](const vx::Args &a) {
        vx::Plan  plan;
        const int k = atoi(a.get("nodes", "3").c_str());
        plan.engine = "langx";
        plan.rule = "every template with <=" + std::to_string(k) + " nodes from the documented grammar: 47 leaf tags ({var:}/{raw:} with name, index and mixed "
                    "paths, resolvable or not; {math:} with literals, variables of every kind, division by zero; {svar:} with var/raw/math sub-tags, "
                    "missing and non-text phrases; {if} in every attribute order and quote style, with sub-tags, variable-only and unevaluable "
                    "cases), <if>/<else if>/<elseif />/<else>/<else /> over 7 cases, <loop> over arrays, objects (keys), sorted both ways, grouped, "
                    "root set, missing/scalar sets and nested loops over the outer value, nesting <=3; x 6 value trees (base, wrong kinds, "
                    "numbers, array root, removed members, empty); rendered as char and char32_t from an exact-size buffer and compared with an "
                    "independent reference interpreter that returns the set of outputs the document admits";
        plan.bounds = "nodes<=" + std::to_string(k);
        static std::vector<VSpec>        specs = value_specs();
        static std::vector<JNode>        models;
        // the templates are enumerated again in every chunk and not kept (4-node templates do not fit in memory): a chunk
        // takes every NCH-th template of the deterministic enumeration order
        static const int64_t NCH = 256;
        static int           kk;
        kk = k;
        int64_t ntemplates = 0;
        {
            Gen g;
            g.bodies(k, 0, false, 3, [&](const Body &b, int) {
                if (!b.empty()) {
                    ++ntemplates;
                }
            });
            for (auto &vs : specs) {
                models.push_back(build_model(vs));
            }
        }
        plan.bounds += " templates=" + std::to_string(ntemplates);
        vx::Stage st;
        st.name   = "templates";
        st.chunks = NCH;
        st.fn     = [](int64_t chunk, vx::Ctx &ctx) {
            static thread_local std::vector<Value<char>>     v8;
            static thread_local std::vector<Value<char32_t>> v32;
            // pointer twins: the same document, every top-level member (item) reached through a pointer-to-value, and the root
            // itself handed in as a pointer: the expansion is the one of the plain tree
            static thread_local std::vector<Value<char>> twin, twin_root;
            if (v8.empty()) {
                for (auto &vs : specs) {
                    v8.push_back(build_value<char>(vs));
                    v32.push_back(build_value<char32_t>(vs));
                }
                twin.resize(v8.size());
                twin_root.resize(v8.size());
                for (size_t i = 0; i < v8.size(); i++) {
                    Value<char> &o = v8[i];
                    if (o.IsObject()) {
                        twin[i] = ValueType::Object; // an empty document stays an (empty) object
                        for (SizeT k = 0; k < o.Size(); k++) {
                            Value<char>       *m   = o.GetValue(k);
                            const String<char> *key = o.GetKey(k);
                            if (m != nullptr && key != nullptr && !m->IsUndefined()) {
                                twin[i][*key].SetPointerToValue(m);
                            }
                        }
                    } else {
                        for (SizeT k = 0; k < o.Size(); k++) {
                            Value<char> *m = o.GetValue(k);
                            if (m != nullptr) {
                                twin[i].AddPointerToValue(m);
                            }
                        }
                    }
                    twin_root[i].SetPointerToValue(&twin[i]);
                }
            }
            Gen     g;
            int64_t counter = 0;
            g.bodies(kk, 0, false, 3, [&](const Body &body, int) {
                if (body.empty() || (counter++ % NCH) != chunk) {
                    return;
                }
                const size_t      ti = (size_t)counter;
                const std::string tsrc = src_of(body);
                if (!ctx.next()) {
                    return;
                }
                if (ctx.want_desc()) {
                    ctx.describe(tsrc);
                }
                ctx.acc.count("states");
                for (size_t vi = 0; vi < specs.size(); vi++) {
                    std::vector<std::unique_ptr<JNode>> owned;
                    bool judged = true;
                    Alts want;
                    for (int mode = 0; mode < 4 && judged; mode++) {
                        g_op1_key          = (mode & 1) != 0;
                        g_uneval_iif_false = (mode & 2) != 0;
                        Env env{&models[vi], {}, &owned};
                        for (auto &w : expand(body, env, judged)) {
                            if (std::find(want.begin(), want.end(), w) == want.end()) {
                                want.push_back(w);
                            }
                        }
                    }
                    ctx.acc.count("transitions");
                    if (!judged) {
                        ctx.acc.count("not_judged");
                        continue;
                    }
                    std::string got = render<char>(tsrc, v8[vi]);
                    ctx.acc.count("evals");
                    if (std::find(want.begin(), want.end(), got) == want.end()) {
                        std::string w;
                        for (auto &x : want) {
                            w += "'" + x + "' ";
                        }
                        ctx.fail(std::string("value=") + specs[vi].name + " template " + tsrc, "rendered '" + got + "', the documented expansion is " + w);
                        continue;
                    }
                    ctx.acc.outcome(vx::hstr(got));
                    const std::string gt = render<char>(tsrc, ((ti + vi) & 1) ? twin[vi] : twin_root[vi]);
                    ctx.acc.count("evals");
                    if (gt != got) {
                        ctx.fail(std::string("value=") + specs[vi].name + " (members behind pointers" + (((ti + vi) & 1) ? "" : ", pointer root") + ") template " + tsrc,
                                 "rendered '" + gt + "', the plain tree renders '" + got + "'");
                    }
                    if (((ti + vi) % 3) == 0) {
                        // the other public overloads: terminated text, and the ones that return the stream by value
                        StringStream<char> s1;
                        Template::Render(tsrc.c_str(), v8[vi], s1);
                        StringStream<char> s2 = Template::Render<StringStream<char>>(tsrc.c_str(), SizeT(tsrc.size()), v8[vi]);
                        StringStream<char> s3 = Template::Render<StringStream<char>>(tsrc.c_str(), v8[vi]);
                        ctx.acc.count("evals", 3);
                        const std::string o1(s1.First() ? s1.First() : "", s1.Length()), o2(s2.First() ? s2.First() : "", s2.Length()),
                            o3(s3.First() ? s3.First() : "", s3.Length());
                        if (o1 != got || o2 != got || o3 != got) {
                            ctx.fail(std::string("value=") + specs[vi].name + " (overloads) template " + tsrc,
                                     "Render(content, value, stream) '" + o1 + "', Render<Stream>(content, length, value) '" + o2 + "', Render<Stream>(content, value) '" + o3 +
                                         "', Render(content, length, value, stream) '" + got + "'");
                        }
                    }
                    std::string g32 = render<char32_t>(tsrc, v32[vi]);
                    if (g32 != got) {
                        ctx.fail(std::string("value=") + specs[vi].name + " char32_t template " + tsrc, "char32_t rendered '" + g32 + "', char rendered '" + got + "'");
                    }
                }
                if ((ti % 997) == 3) {
                    ctx.acc.sample(tsrc);
                }
            });
        };
        plan.stages.push_back(st);
        {
            // 16/32-bit builds: a subscript unit above 0xFF whose low byte is an ASCII digit is no digit, the tag stays as it is
            vx::Stage sw;
            sw.name   = "wide-subscripts";
            sw.chunks = 1;
            sw.fn     = [](int64_t, vx::Ctx &ctx) {
                auto run = [&](auto tag, const char *wn) {
                    using C = decltype(tag);
                    Value<C> v = build_value<C>(specs[0]); // "arr":[1,2], "b":[3,1,{..}], "nums":[3,1,2]
                    for (const char *head : {"{var:arr[", "{raw:nums[", "{var:b[2][", "<loop set=\"arr[", "{math:1+{var:nums["}) {
                        for (char32_t u : {char32_t(0x131), char32_t(0x430), char32_t(0x0660), char32_t(0xFF11), char32_t(sizeof(C) == 2 ? 0x2131 : 0x10131)}) {
                            for (int form = 0; form < 3; form++) {
                                if (!ctx.next()) {
                                    continue;
                                }
                                std::basic_string<C> t;
                                for (const char *p = head; *p; p++) {
                                    t.push_back(C(*p));
                                }
                                if (form == 1) {
                                    t.push_back(C('0')); // a real digit in front: "0<unit>"
                                }
                                t.push_back(C(u));
                                if (form == 2) {
                                    t.push_back(C('1'));
                                }
                                const std::string h = head;
                                const char       *tail = h[0] == '<' ? "]\" value=\"w\">x</loop>" : (h.find("{math:") == 0 ? "]}}" : (h.find("b[2][") != std::string::npos ? "]}" : "]}"));
                                for (const char *p = tail; *p; p++) {
                                    t.push_back(C(*p));
                                }
                                StringStream<C> ss;
                                Template::Render(t.data(), SizeT(t.size()), v, ss);
                                ctx.acc.count("states");
                                ctx.acc.count("evals");
                                std::basic_string<C> want = (h[0] == '<') ? std::basic_string<C>() : t; // a loop over nothing prints nothing
                                std::basic_string<C> got(ss.First() ? ss.First() : t.data(), ss.Length());
                                if (got != want) {
                                    std::string g;
                                    for (C c : got) {
                                        g += (c >= 0x20 && c < 0x7f) ? std::string(1, char(c)) : ("\\u{" + std::to_string((unsigned)c) + "}");
                                    }
                                    char key[160];
                                    snprintf(key, sizeof key, "%s wide subscript: %s + U+%04X (form %d)", wn, head, (unsigned)u, form);
                                    ctx.fail(key, "rendered '" + g + "'; a unit above 0xFF is no decimal digit, so the subscript names no item");
                                }
                            }
                        }
                    }
                };
                run(char16_t(0), "char16_t");
                run(char32_t(0), "char32_t");
                run(wchar_t(0), "wchar_t");
            };
            plan.stages.push_back(sw);
        }
        {
            // loop heads whose attributes start more than 255 units behind '<loop' (the tag record keeps their offsets)
            vx::Stage s3;
            s3.name   = "long-loop-heads";
            s3.chunks = 1;
            s3.fn     = [](int64_t, vx::Ctx &ctx) {
                Value<char>       v = build_value<char>(specs[0]);
                const std::string pad(250, ' ');
                struct {
                    std::string tpl, want;
                } cs[] = {{"<loop set=\"nums\"" + pad + " value=\"v\">{var:v},</loop>", "3,1,2,"},
                          {"<loop" + pad + " set=\"nums\" value=\"v\" sort=\"ascend\">{var:v},</loop>", "1,2,3,"},
                          {"<loop set=\"g\"" + pad + " value=\"v\" group=\"y\">{var:v};</loop>", "1;2;"},
                          {"<loop set=\"g\" value=\"v\"" + pad + " group=\"y\">{var:v};</loop>", "1;2;"}};
                for (auto &c : cs) {
                    if (!ctx.next()) {
                        continue;
                    }
                    if (ctx.want_desc()) {
                        ctx.describe("long loop head (" + std::to_string(c.tpl.size()) + " units) " + c.tpl.substr(0, 20) + "..." + c.tpl.substr(c.tpl.size() - 50));
                    }
                    ctx.acc.count("states");
                    ctx.acc.count("evals");
                    std::string got = render<char>(c.tpl, v);
                    if (got != c.want) {
                        ctx.fail("long loop head " + c.tpl.substr(0, 20) + "...(250 blanks)..." + c.tpl.substr(c.tpl.size() - 50), "rendered '" + got.substr(0, 120) + "', the documented expansion is '" + c.want + "'");
                    }
                }
            };
            plan.stages.push_back(s3);
        }
        {
            vx::Stage s2;
            s2.name   = "inline-if-attribute-order";
            s2.chunks = 1;
            s2.fn     = [](int64_t, vx::Ctx &ctx) {
                Value<char> v = build_value<char>(specs[0]);
                struct {
                    const char *tpl, *want;
                } cs[] = {{"{if true=\"T\" case=\"1\" false=\"F\"}", "T"}, {"{if false='F' case='0' true='T'}", "F"}, {"{if true=\"{var:a}\" case=\"{var:z}==0\"}", "1"}};
                for (auto &c : cs) {
                    if (!ctx.next()) {
                        continue;
                    }
                    ctx.acc.count("states");
                    ctx.acc.count("evals");
                    std::string got = render<char>(c.tpl, v);
                    if (got != c.want) {
                        ctx.fail(std::string("attribute-order template ") + c.tpl, "rendered '" + got + "', the documented expansion is '" + c.want + "'");
                    }
                }
            };
            plan.stages.push_back(s2);
        }
        plan.finish = [](vx::Part &p) {
            p.bounds += " | judged=" + std::to_string(p.acc.counters["evals"]) + " not_judged=" + std::to_string(p.acc.counters["not_judged"]);
        };
        plan.assumptions = {"the reference interpreter is written from Documentation/Template.md; where the document is silent the form is either not "
                            "generated or a set of outputs is admitted (DESIGN.md Appendix A)",
                            "reals in the value trees need at most two fraction digits (rounding is C10's subject)",
                            "sort is judged on uniform arrays of numbers/strings and on objects (mixed-kind order is C15's subject)"};
        return plan;
    });
}
