// json_common.hpp - shared pieces of the JSON harnesses (C05, C06, C07, C08).
#ifndef JSON_COMMON_HPP
#define JSON_COMMON_HPP
#include "vx_ledger.hpp"
#include "vx_main.hpp"
#include "langx.hpp"
#include "JSON.hpp"
#include "value_dump.hpp"

using namespace Qentem;
using langx::Text;

template <typename C>
static const char *wname() {
    return sizeof(C) == 1 ? "char" : (sizeof(C) == 2 ? "char16_t" : (std::is_same<C, wchar_t>::value ? "wchar_t" : "char32_t"));
}

struct JsonOutcome {
    bool        undefined = false;
    bool        partial   = false; // not Undefined but contains an Undefined node
    std::string dump;
    std::string restr;       // Stringify text (narrowed for reporting)
    bool        fixed_point = true;
};

// Parses text t (exact-size buffer, no terminator) as Char type C and checks the all-or-nothing shape.
template <typename C>
static JsonOutcome parse_one(const Text &t, langx::Exact<C> &ex, bool roundtrip) {
    JsonOutcome o;
    const C    *p = ex.put(t);
    {
        Value<C> v = JSON::Parse(p, SizeT(t.size()));
        o.undefined = v.IsUndefined();
        if (!o.undefined) {
            o.partial = ref::has_undefined(v);
            o.dump    = ref::dump(v);
            if (roundtrip && !o.partial && (v.IsArray() || v.IsObject())) {
                StringStream<C> ss;
                v.Stringify(ss, 17U);
                Value<C> w = JSON::Parse(ss.First(), ss.Length());
                std::string d2 = w.IsUndefined() ? std::string("U") : ref::dump(w);
                // numbers may change kind (unsigned/signed/real) only if equal in value: compare through a
                // kind-insensitive view when the plain dumps differ
                o.fixed_point = (d2 == o.dump);
                if (!o.fixed_point) {
                    StringStream<C> s2;
                    w.Stringify(s2, 17U);
                    o.fixed_point = (s2.Length() == ss.Length()) &&
                                    (memcmp(s2.First(), ss.First(), ss.Length() * sizeof(C)) == 0) && !w.IsUndefined();
                }
                for (SizeT i = 0; i < ss.Length() && i < 200; i++) {
                    o.restr += char(ss.First()[i] & 0x7f);
                }
            }
        }
    }
    return o;
}

static inline bool ledger_ok(vx::Ctx &ctx, const std::string &casekey) {
    vx::Ledger &l = vx::ledger();
    if (l.live != 0 || l.foreign != 0) {
        ctx.fail(casekey + " [ledger]", "after the case: live blocks=" + std::to_string(l.live) +
                                            " foreign/double releases=" + std::to_string(l.foreign));
        l.clear();
        return false;
    }
    return true;
}
#endif
