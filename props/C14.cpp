// C14 - Array, String, StringStream and StringView behave as plain sequences; Memory::Copy/SetToZero are exact. (systems in c14_sys.hpp)
#include "c14_sys.hpp"

int main(int argc, char **argv) {
    return vx::standard_main(argc, argv, [](const vx::Args &a) {
        vx::Plan   plan;
        const bool th     = a.thorough();
        const int  depth  = atoi(a.get("depth", th ? "4" : "3").c_str());
        const int  maxlen = atoi(a.get("copylen", th ? "4096" : "300").c_str());
        const bool only_copy = a.get("only", "") == "copy";
        plan.engine = "seqx";
        plan.rule = "breadth-first over operation histories (depth " + std::to_string(depth) + ") on two registers of Array<int>, Array<Tracked> "
                    "(owning element counting constructions/destructions), String<char|char16_t>, StringStream<char|char32_t> with "
                    "self-aliasing operations; std::vector / std::basic_string models compared after every transition (contents, length, "
                    "terminator, Size<=Capacity, First/Last/End/iteration, all comparison operators, StringView over the same contents); "
                    "Memory::Copy/SetToZero: every length 0.." + std::to_string(maxlen) + " x 32 source x 32 destination misalignments with "
                    "guard bytes vs memcpy/memset; distinct = canonical states + copy cases";
        plan.bounds = "depth=" + std::to_string(depth) + " copylen=" + std::to_string(maxlen);
        static seqx::Search<ArraySys<int>>        s_ai;
        static seqx::Search<ArraySys<Tracked>>    s_at;
        static seqx::Search<StringSys<char>>      s_s8;
        static seqx::Search<StringSys<char16_t>>  s_s16;
        static seqx::Search<StreamSys<char>>      s_ss8;
        static seqx::Search<StreamSys<char32_t>>  s_ss32;
        auto add = [&](auto &srch, const char *nm, int d) {
            srch.name        = nm;
            srch.max_depth   = d;
            srch.per_chunk   = 8;
            srch.stage_index = (int)plan.stages.size();
            plan.stages.push_back(srch.stage());
        };
        if (!only_copy) {
            add(s_ai, "Array<int>", depth);
            add(s_at, "Array<Tracked>", depth);
            add(s_s8, "String<char>", depth);
            add(s_s16, "String<char16_t>", depth - 1);
            add(s_ss8, "StringStream<char>", depth);
            add(s_ss32, "StringStream<char32_t>", depth - 1);
        }
        {
            vx::Stage st;
            st.name   = "memory-copy";
            st.chunks = 32;
            st.fn     = [maxlen](int64_t chunk, vx::Ctx &ctx) { copy_stage(chunk, ctx, maxlen); };
            plan.stages.push_back(st);
        }
        plan.evals_counter = "transitions";
        plan.finish = [only_copy](vx::Part &p) {
            p.evaluations += p.acc.counters["evals"];
            p.distinct_extra = p.acc.counters["states"];
            if (!only_copy) {
                p.bounds += " | " + s_ai.summary() + " | " + s_at.summary() + " | " + s_s8.summary() + " | " + s_s16.summary() + " | " +
                            s_ss8.summary() + " | " + s_ss32.summary();
            }
        };
        plan.assumptions = {"capacities are compared with the model only where the API documents them (Reserve/Resize/Expect/Compress)",
                            "SetLength beyond the old length leaves unspecified units and is only explored for shrinking",
                            "the Tracked element tolerates bitwise relocation (Array relocates with Memory::Copy by design)"};
        return plan;
    });
}
