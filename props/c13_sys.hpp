#ifndef C13_SYS_HPP
#define C13_SYS_HPP
// C13 - the hash array is an insertion-ordered map under every operation sequence.
// Engine E1 (seqx). Built with -fno-access-control so the structural invariants of the one-block layout can be read.
#include "vx_ledger.hpp"
#include "vx_main.hpp"
#include "seqx.hpp"
#include "String.hpp"
#include "HArray.hpp"
#include "HList.hpp"
#include <utility>

using namespace Qentem;
using HStr = String<char>;

#ifndef VX_SLOT_DEFINED
#define VX_SLOT_DEFINED
template <typename T>
struct Slot {
    alignas(16) unsigned char raw[sizeof(T)];
    T *p = nullptr;
    Slot() {
        memset(raw, 0xAB, sizeof raw);
        p = new (raw) T();
    }
    ~Slot() { p->~T(); }
    T &operator*() { return *p; }
    T *operator->() { return p; }
};
#endif

// adversarial keys chosen with the real hash function: collisions at capacities 2, 4 and 8
struct Keys {
    std::vector<std::string> k;
    Keys() {
        auto H = [](const std::string &s) { return StringUtils::Hash(s.data(), SizeT(s.size())); };
        k.push_back("");                        // 0: empty key
        k.push_back("a");                       // 1
        k.push_back(std::string("a\0b", 3));    // 2: embedded NUL
        const SizeT h1 = H("a");
        std::string same8a, same8b, other, low16;
        for (int n = 1; n <= 3 && (same8a.empty() || same8b.empty() || other.empty() || low16.empty()); n++) {
            std::string s((size_t)n, 'a');
            for (;;) {
                SizeT h = H(s);
                if (s != "a" && h != h1) {
                    if ((h & 7) == (h1 & 7)) {
                        if (same8a.empty()) {
                            same8a = s;
                        } else if (same8b.empty() && H(same8a) != h) {
                            same8b = s;
                        }
                    } else if ((h & 1) != (h1 & 1) && other.empty()) {
                        other = s;
                    }
                    if ((h & 0xFFFF) == (h1 & 0xFFFF) && low16.empty()) {
                        low16 = s;
                    }
                }
                int i = n - 1;
                while (i >= 0 && s[(size_t)i] == 'z') {
                    s[(size_t)i] = 'a';
                    i--;
                }
                if (i < 0) {
                    break;
                }
                s[(size_t)i]++;
            }
        }
        k.push_back(same8a);                       // 3: same bucket as "a" at capacity 8 (hence 4 and 2)
        k.push_back(same8b);                       // 4: same bucket again, third hash
        k.push_back(other);                        // 5: the other bucket at capacity 2
        k.push_back(low16.empty() ? "zz" : low16); // 6: equal low 16 hash bits
        // 7, 8: FULL hash collisions where one key is a proper prefix of the other (only the length tells them apart)
        {
            std::string zero(1, '\0');
            if (H(zero) == H("")) {
                k.push_back(zero); // "" vs "\0"
            }
            if (H("10") == H("20")) {
                k.push_back("10"); // equal length, equal full hash, different text
                k.push_back("20");
            }
            for (int c = 1; c < 256; c++) {
                std::string s2 = std::string("a") + char(c);
                if (H(s2) == h1) {
                    k.push_back(s2); // "a" vs "a?"
                    break;
                }
            }
        }
    }
};
static const Keys &KEYS() {
    static Keys k;
    return k;
}
static std::string kshow(const std::string &s) {
    std::string o = "'";
    for (char c : s) {
        o += c ? std::string(1, c) : std::string("\\0");
    }
    return o + "'";
}

struct Entry {
    std::string key, val;
};
using Model = std::vector<Entry>; // live entries in first-insertion order

static int mfind(const Model &m, const std::string &k) {
    for (size_t i = 0; i < m.size(); i++) {
        if (m[i].key == k) {
            return (int)i;
        }
    }
    return -1;
}
static void mput(Model &m, const std::string &k, const std::string &v) {
    int i = mfind(m, k);
    if (i < 0) {
        m.push_back({k, v});
    } else {
        m[(size_t)i].val = v;
    }
}
static void mdel(Model &m, const std::string &k) {
    int i = mfind(m, k);
    if (i >= 0) {
        m.erase(m.begin() + i);
    }
}
static bool str_less(const std::string &a, const std::string &b) {
    // the library's own order on String<char> (validated by C15): unit-wise, shorter first on a common prefix
    HStr x(a.data(), SizeT(a.size())), y(b.data(), SizeT(b.size()));
    return x < y;
}

template <typename Table>
static std::string structure(const Table &t) {
    // one block: capacity_ bucket heads followed by items; capacity a power of two; every live item sits exactly on the
    // chain of Hash & (capacity-1); chains are acyclic and end in 0
    char        b[200];
    const SizeT cap = t.capacity_, size = t.index_;
    if (cap == 0) {
        if (size != 0 || t.hashTable_ != nullptr) {
            return "capacity 0 but size/storage set";
        }
        return "";
    }
    if ((cap & (cap - 1)) != 0) {
        snprintf(b, sizeof b, "capacity %u is not a power of two", (unsigned)cap);
        return b;
    }
    if (size > cap) {
        snprintf(b, sizeof b, "size %u > capacity %u", (unsigned)size, (unsigned)cap);
        return b;
    }
    const SizeT *ht    = t.hashTable_;
    const auto  *items = t.Storage();
    std::vector<int> seen((size_t)size, 0);
    for (SizeT bkt = 0; bkt < cap; bkt++) {
        SizeT idx   = ht[bkt];
        SizeT steps = 0;
        while (idx != 0) {
            if (idx > size) {
                snprintf(b, sizeof b, "bucket %u chain points at slot %u beyond size %u", (unsigned)bkt, (unsigned)idx, (unsigned)size);
                return b;
            }
            if (++steps > size) {
                snprintf(b, sizeof b, "bucket %u chain is cyclic", (unsigned)bkt);
                return b;
            }
            const auto &it = items[idx - 1];
            if (it.Hash != 0 && (it.Hash & (cap - 1)) != bkt) {
                snprintf(b, sizeof b, "slot %u (hash %x) is chained in bucket %u", (unsigned)(idx - 1), (unsigned)it.Hash, (unsigned)bkt);
                return b;
            }
            seen[idx - 1]++;
            idx = it.Next;
        }
    }
    for (SizeT i = 0; i < size; i++) {
        if (items[i].Hash != 0 && seen[i] != 1) {
            snprintf(b, sizeof b, "live slot %u is reachable %d times from the buckets", (unsigned)i, seen[i]);
            return b;
        }
        if (items[i].Hash != 0 && items[i].Hash != StringUtils::Hash(items[i].Key.First(), items[i].Key.Length())) {
            snprintf(b, sizeof b, "slot %u stores a stale hash", (unsigned)i);
            return b;
        }
    }
    return "";
}

struct HOpD {
    const char *name;
    int         k; // key index / numeric argument
    int         v; // value selector
};
static std::string opn(const HOpD &o) {
    std::string s = o.name;
    size_t      p = s.find("K");
    if (p != std::string::npos && o.k >= 0 && o.k < (int)KEYS().k.size()) {
        s.replace(p, 1, kshow(KEYS().k[(size_t)o.k]));
    } else if (o.k >= 0 && s.find("#") != std::string::npos) {
        s.replace(s.find("#"), 1, std::to_string(o.k));
    }
    if (o.v) {
        s += " v" + std::to_string(o.v);
    }
    return s;
}

// ---------------------------------------------------------------------------------------------------------
template <bool IsList>
struct HSys {
    using HA = HArray<HStr, HStr>;
    using HL = HList<HStr>;
    using T  = typename std::conditional<IsList, HL, HA>::type;
    Slot<T> A, B;
    Model   ma, mb;
    bool    sortedA = false; // after Sort the iteration order is the key order until the next insertion

    static const std::vector<HOpD> &ops() {
        static std::vector<HOpD> o = [] {
            std::vector<HOpD> v;
            const int        nk = (int)KEYS().k.size();
            for (int k = 0; k < nk; k++) {
                v.push_back({"A.Insert(K&&,V&&)", k, 1});
            }
            v.push_back({"A.Insert(const K&,V&&)", 1, 2});
            v.push_back({"A.Insert(K&&,const V&)", 3, 2});
            v.push_back({"A.Insert(const K&,const V&)", 4, 2});
            v.push_back({"A.Insert(ptr,len,V&&)", 2, 2});
            for (int k : {0, 1, 3, 5}) {
                v.push_back({"A[K c_str]=v", k, 3});
            }
            v.push_back({"A[const K&]=v", 4, 3});
            v.push_back({"A[K&&]=v", 6, 3});
            v.push_back({"A.Get(K ptr,len)=v", 2, 3});
            for (int k = 0; k < nk; k++) {
                v.push_back({"A.Remove(K ptr,len)", k, 0});
            }
            v.push_back({"A.Remove(K c_str)", 1, 0});
            v.push_back({"A.Remove(const K&)", 3, 0});
            for (int i : {0, 1, 2}) {
                v.push_back({"A.RemoveIndex(#)", i, 0});
            }
            v.push_back({"A.RemoveIndex(Size-1)", -1, 0});
            v.push_back({"A.RemoveIndex(Size)", -1, 0});
            v.push_back({"A.Rename(K->next,&&)", 1, 0});
            v.push_back({"A.Rename(K->next,const&)", 3, 0});
            v.push_back({"A.Rename(K->next,&&)", 0, 0});
            v.push_back({"B.Insert(K&&,V&&)", 1, 4});
            v.push_back({"B.Insert(K&&,V&&)", 5, 4});
            v.push_back({"B.Insert(K&&,V&&)", 4, 4});
            v.push_back({"B.Remove(K ptr,len)", 1, 0});
            v.push_back({"A: insert the first four keys", -1, 2}); // one step to a full table of capacity 4, so that depth 4 reaches beyond it
            v.push_back({"A+=B", -1, 0});
            v.push_back({"A+=move(B)", -1, 0});
            v.push_back({"A+=A (const&)", -1, 0});
            v.push_back({"A+=move(A)", -1, 0});
            v.push_back({"A.Reserve(#)", 0, 0});
            v.push_back({"A.Reserve(#)", 2, 0});
            v.push_back({"A.Reserve(#)", 3, 0});
            v.push_back({"A.Resize(Size)", -1, 0});
            v.push_back({"A.Resize(Size+3)", -1, 0});
            v.push_back({"A.Resize(0)", -1, 0});
            v.push_back({"A.Resize(Size-#)", 1, 0});
            v.push_back({"A.Resize(Size-#)", 2, 0});
            v.push_back({"A.Expect(#)", 1, 0});
            v.push_back({"A.Expect(#)", 5, 0});
            v.push_back({"A.Compress", -1, 0});
            v.push_back({"A.Clear", -1, 0});
            v.push_back({"A.Reset", -1, 0});
            v.push_back({"A.Sort asc", -1, 0});
            v.push_back({"A.Sort desc", -1, 0});
            v.push_back({"A=B", -1, 0});
            v.push_back({"A=move(B)", -1, 0});
            v.push_back({"A=A", -1, 0});
            v.push_back({"B=T(A)", -1, 0});
            v.push_back({"B=T(move(A))", -1, 0});
            v.push_back({"A=T(n)", 3, 0});
            return v;
        }();
        return o;
    }
    static int         num_ops() { return (int)ops().size(); }
    static std::string op_name(int i) { return opn(ops()[(size_t)i]); }
    static HStr         mk(const std::string &s) { return HStr(s.data(), SizeT(s.size())); }
    static std::string val(int v) { return v == 0 ? "" : std::string("val") + std::to_string(v) + std::string((size_t)v * 3, 'x'); }

    template <typename TT = T>
    static typename std::enable_if<std::is_same<TT, HA>::value, std::string>::type get_val(const TT &t, const std::string &k, bool &found) {
        const HStr *v = t.GetValue(k.data(), SizeT(k.size()));
        found        = v != nullptr;
        return found ? std::string(v->First() ? v->First() : "", v->Length()) : "";
    }
    template <typename TT = T>
    static typename std::enable_if<std::is_same<TT, HL>::value, std::string>::type get_val(const TT &t, const std::string &k, bool &found) {
        found = t.Has(k.data(), SizeT(k.size()));
        return "";
    }

    static std::string check(const T &t, const Model &m, const char *nm) {
        char        b[300];
        std::string e = structure(t);
        if (!e.empty()) {
            return std::string(nm) + ": " + e;
        }
        if (t.ActualSize() != m.size()) {
            snprintf(b, sizeof b, "%s.ActualSize() is %u, model has %zu live entries", nm, (unsigned)t.ActualSize(), m.size());
            return b;
        }
        if (t.Size() < m.size() || t.Size() > t.Capacity()) {
            return std::string(nm) + ".Size() outside [live count, capacity]";
        }
        // lookups for every alphabet key and an absent key
        std::vector<std::string> probe = KEYS().k;
        probe.push_back("absent-key");
        for (auto &k : probe) {
            int  mi = mfind(m, k);
            bool found;
            std::string v = get_val(t, k, found);
            if (found != (mi >= 0)) {
                return std::string(nm) + ": key " + kshow(k) + (found ? " is found but was not stored / was removed" : " was stored but is not found");
            }
            if (found && !IsList && v != m[(size_t)mi].val) {
                return std::string(nm) + ": key " + kshow(k) + " maps to '" + v + "', last stored '" + m[(size_t)mi].val + "'";
            }
            HStr ks = mk(k);
            if (t.Has(ks) != found || t.Has(k.data(), SizeT(k.size())) != found) {
                return std::string(nm) + ".Has(" + kshow(k) + ") disagrees with the lookup";
            }
            SizeT idx = 12345;
            bool  gi  = t.GetKeyIndex(idx, k.data(), SizeT(k.size()));
            SizeT idx2 = 54321;
            bool  gi2  = t.GetKeyIndex(idx2, ks);
            if (gi != found || gi2 != found || (found && idx != idx2)) {
                return std::string(nm) + ".GetKeyIndex(" + kshow(k) + ") disagrees with the lookup";
            }
            if (found) {
                const HStr *kk = t.GetKey(idx);
                if (kk == nullptr || std::string(kk->First() ? kk->First() : "", kk->Length()) != k) {
                    return std::string(nm) + ": GetKey(GetKeyIndex(" + kshow(k) + ")) is a different key";
                }
                const auto *it = t.GetItem(ks);
                const auto *it2 = t.GetItem(idx);
                if (it == nullptr || it != it2) {
                    return std::string(nm) + ": GetItem by key and by index disagree for " + kshow(k);
                }
            } else if (t.GetItem(ks) != nullptr) {
                return std::string(nm) + ": GetItem finds the absent key " + kshow(k);
            }
        }
        // iteration over live entries = model order
        size_t n = 0;
        for (SizeT i = 0; i < t.Size(); i++) {
            const auto *it = t.GetItem(i);
            const HStr  *k  = t.GetKey(i);
            if ((it == nullptr) != (k == nullptr)) {
                return std::string(nm) + ": GetItem(i)/GetKey(i) disagree about liveness";
            }
            if (it == nullptr) {
                continue;
            }
            std::string ks(k->First() ? k->First() : "", k->Length());
            if (n >= m.size() || ks != m[n].key) {
                snprintf(b, sizeof b, "%s: live entry #%zu is %s, model expects %s", nm, n, kshow(ks).c_str(), n < m.size() ? kshow(m[n].key).c_str() : "(none)");
                return b;
            }
            n++;
        }
        if (n != m.size()) {
            return std::string(nm) + ": iteration visits fewer live entries than the model";
        }
        if (t.IsEmpty() != (t.Size() == 0) || t.IsNotEmpty() == (t.Size() == 0)) {
            return std::string(nm) + ".IsEmpty inconsistent";
        }
        return "";
    }

    template <typename TT>
    typename std::enable_if<std::is_same<TT, HA>::value>::type ins(TT &t, int form, const std::string &k, const std::string &v) {
        HStr ks = mk(k), vs = mk(v);
        switch (form) {
            case 0: t.Insert(std::move(ks), std::move(vs)); break;
            case 1: t.Insert((const HStr &)ks, std::move(vs)); break;
            case 2: t.Insert(std::move(ks), (const HStr &)vs); break;
            case 3: t.Insert((const HStr &)ks, (const HStr &)vs); break;
            case 4: t.Insert(k.data(), SizeT(k.size()), std::move(vs)); break;
        }
    }
    template <typename TT>
    typename std::enable_if<std::is_same<TT, HL>::value>::type ins(TT &t, int form, const std::string &k, const std::string &) {
        HStr ks = mk(k);
        switch (form) {
            case 0:
            case 2: t.Insert(std::move(ks)); break;
            case 1:
            case 3: t.Insert((const HStr &)ks); break;
            case 4: t.Insert(k.data(), SizeT(k.size())); break;
        }
    }
    template <typename TT>
    typename std::enable_if<std::is_same<TT, HA>::value, bool>::type getset(TT &t, int form, const std::string &k, const std::string &v) {
        HStr ks = mk(k);
        HStr kz = mk(k); // c_str form needs a terminated key without embedded NUL
        switch (form) {
            case 0: t[kz.First() ? kz.First() : ""] = mk(v); break;
            case 1: t[(const HStr &)ks] = mk(v); break;
            case 2: t[std::move(ks)] = mk(v); break;
            case 3: t.Get(k.data(), SizeT(k.size())) = mk(v); break;
        }
        return true;
    }
    template <typename TT>
    typename std::enable_if<std::is_same<TT, HL>::value, bool>::type getset(TT &, int, const std::string &, const std::string &) {
        return false; // HList has no get-or-create
    }

    bool apply(int i, std::string &err) {
        const HOpD        &o = ops()[(size_t)i];
        const std::string n = o.name;
        T                &a = *A, &b = *B;
        const std::string key = (o.k >= 0 && o.k < (int)KEYS().k.size()) ? KEYS().k[(size_t)o.k] : "";
        const std::string v   = IsList ? "" : val(o.v);
        bool              inserted_new = false;
        if (n.rfind("A.Insert", 0) == 0) {
            int form = n == "A.Insert(K&&,V&&)" ? 0 : (n == "A.Insert(const K&,V&&)" ? 1 : (n == "A.Insert(K&&,const V&)" ? 2 : (n == "A.Insert(const K&,const V&)" ? 3 : 4)));
            inserted_new = mfind(ma, key) < 0;
            ins(a, form, key, v);
            mput(ma, key, v);
        } else if (n == "A[K c_str]=v" || n == "A[const K&]=v" || n == "A[K&&]=v" || n == "A.Get(K ptr,len)=v") {
            int form = n == "A[K c_str]=v" ? 0 : (n == "A[const K&]=v" ? 1 : (n == "A[K&&]=v" ? 2 : 3));
            if (form == 0 && key.find('\0') != std::string::npos) {
                return false;
            }
            inserted_new = mfind(ma, key) < 0;
            if (!getset(a, form, key, v)) {
                return false;
            }
            mput(ma, key, v);
        } else if (n == "A.Remove(K ptr,len)") {
            a.Remove(key.data(), SizeT(key.size()));
            mdel(ma, key);
        } else if (n == "A.Remove(K c_str)") {
            a.Remove(key.c_str());
            mdel(ma, key);
        } else if (n == "A.Remove(const K&)") {
            HStr ks = mk(key);
            a.Remove(ks);
            mdel(ma, key);
        } else if (n.rfind("A.RemoveIndex", 0) == 0) {
            SizeT idx = n == "A.RemoveIndex(#)" ? SizeT(o.k) : (n == "A.RemoveIndex(Size-1)" ? a.Size() - 1 : a.Size());
            if (n == "A.RemoveIndex(Size-1)" && a.Size() == 0) {
                return false;
            }
            // which live entry is that? positions are only meaningful through the API itself
            const HStr *k = a.GetKey(idx);
            std::string ks = k ? std::string(k->First() ? k->First() : "", k->Length()) : "";
            bool        live = k != nullptr;
            a.RemoveIndex(idx);
            if (live) {
                mdel(ma, ks);
            }
        } else if (n.rfind("A.Rename", 0) == 0) {
            const std::string to = KEYS().k[(size_t)((o.k + 1) % (int)KEYS().k.size())];
            HStr  f = mk(key), t2 = mk(to);
            bool ok;
            if (n == "A.Rename(K->next,&&)") {
                ok = a.Rename(f, std::move(t2));
            } else {
                ok = a.Rename(f, (const HStr &)t2);
            }
            bool expect = mfind(ma, key) >= 0 && mfind(ma, to) < 0;
            if (ok != expect) {
                err = std::string("Rename returned ") + (ok ? "true" : "false") + " but the model says " + (expect ? "possible" : "impossible");
            }
            if (expect) {
                ma[(size_t)mfind(ma, key)].key = to; // keeps its position
                sortedA = false;
            }
        } else if (n == "B.Insert(K&&,V&&)") {
            ins(b, 0, key, v);
            mput(mb, key, v);
        } else if (n == "B.Remove(K ptr,len)") {
            b.Remove(key.data(), SizeT(key.size()));
            mdel(mb, key);
        } else if (n == "A+=B" || n == "A+=move(B)") {
            for (auto &e : mb) {
                if (mfind(ma, e.key) < 0) {
                    inserted_new = true;
                }
                mput(ma, e.key, e.val);
            }
            if (n == "A+=B") {
                a += b;
            } else {
                a += std::move(b);
                mb.clear();
            }
        } else if (n == "A: insert the first four keys") {
            for (int k = 0; k < 4; k++) {
                const std::string kk = KEYS().k[(size_t)k];
                if (mfind(ma, kk) < 0) {
                    inserted_new = true;
                }
                ins(a, 0, kk, v);
                mput(ma, kk, v);
            }
        } else if (n == "A+=move(A)") {
            a += std::move(a); // merging a table into itself, by move as well, leaves it as it is
        } else if (n == "A+=A (const&)") {
            const T &self = a; // merging a table into itself leaves it as it is
            a += self;
        } else if (n == "A.Reserve(#)") {
            a.Reserve(SizeT(o.k));
            ma.clear();
            if (a.Capacity() < SizeT(o.k)) {
                err = "Reserve(n) did not provide the capacity";
            }
        } else if (n == "A.Resize(Size)" || n == "A.Resize(Size+3)") {
            if (a.Size() == 0 && n == "A.Resize(Size)") {
                return false; // Resize(0) is Reset, explored separately
            }
            SizeT want = a.Size() + (n == "A.Resize(Size)" ? 0 : 3);
            a.Resize(want);
            if (a.Capacity() < want) {
                err = "Resize(n) did not provide the capacity";
            }
        } else if (n == "A.Resize(Size-#)") {
            // shrinking drops the last slots; which entries those are is only defined while no slot is a removed one
            if (a.Size() != a.ActualSize() || a.Size() <= SizeT(o.k)) {
                return false;
            }
            SizeT want = a.Size() - SizeT(o.k);
            a.Resize(want);
            ma.resize((size_t)want);
            if (a.Capacity() < want) {
                err = "Resize(n) did not provide the capacity";
            }
        } else if (n == "A.Resize(0)") {
            a.Resize(0);
            ma.clear();
        } else if (n == "A.Expect(#)") {
            a.Expect(SizeT(o.k));
            if (a.Capacity() < a.Size() + SizeT(o.k)) {
                err = "Expect(n) did not provide room for n more entries";
            }
        } else if (n == "A.Compress") {
            a.Compress();
            if (a.Size() != ma.size()) {
                err = "Compress left removed slots behind";
            }
        } else if (n == "A.Clear") {
            a.Clear();
            ma.clear();
        } else if (n == "A.Reset") {
            a.Reset();
            ma.clear();
            if (a.Capacity() != 0) {
                err = "Reset kept capacity";
            }
        } else if (n == "A.Sort asc" || n == "A.Sort desc") {
            const bool asc = n == "A.Sort asc";
            a.Sort(asc);
            std::stable_sort(ma.begin(), ma.end(), [&](const Entry &x, const Entry &y) { return asc ? str_less(x.key, y.key) : str_less(y.key, x.key); });
        } else if (n == "A=B") {
            a  = b;
            ma = mb;
        } else if (n == "A=move(B)") {
            a  = std::move(b);
            ma = mb;
            mb.clear();
        } else if (n == "A=A") {
            T &alias = a;
            a        = alias;
        } else if (n == "B=T(A)") {
            T c(a);
            b  = std::move(c);
            mb = ma;
        } else if (n == "B=T(move(A))") {
            T c(std::move(a));
            b  = std::move(c);
            mb = ma;
            ma.clear();
        } else if (n == "A=T(n)") {
            a = T(SizeT(o.k));
            ma.clear();
        } else {
            return false;
        }
        (void)inserted_new;
        if (err.empty()) {
            err = check(a, ma, "A");
        }
        if (err.empty()) {
            err = check(b, mb, "B");
        }
        return true;
    }
    std::string key() {
        std::string k;
        auto        dump = [&](const T &t) {
            for (SizeT i = 0; i < t.Size(); i++) {
                const HStr *kk = t.GetKey(i);
                if (kk == nullptr) {
                    k += "~,";
                } else {
                    k += kshow(std::string(kk->First() ? kk->First() : "", kk->Length())) + ",";
                }
            }
            k += "#" + std::to_string(t.Capacity()) + "|";
        };
        dump(*A);
        for (auto &e : ma) {
            k += e.val + ";";
        }
        dump(*B);
        for (auto &e : mb) {
            k += e.val + ";";
        }
        return k;
    }
};


#endif
