// C20 - code points encode to standard UTF-8/16/32 and \u escapes decode to them.
// Engine E3 (numx): the complete space of 1,112,064 scalar values x 4 character types x 9 forms is enumerated.
#include "vx_ledger.hpp"
#include "vx_main.hpp"
#include "utf_ref.hpp"
#include "JSON.hpp"

using namespace Qentem;

static const char *HEXU = "0123456789ABCDEF";
static const char *HEXL = "0123456789abcdef";

template <typename C>
static void put_escape(std::vector<C> &t, uint32_t u16, int casing) {
    t.push_back(C('\\'));
    t.push_back(C('u'));
    for (int i = 3; i >= 0; i--) {
        unsigned d = (u16 >> (4 * i)) & 0xF;
        const char *tab = (casing == 0) ? HEXU : (casing == 1) ? HEXL : ((i & 1) ? HEXU : HEXL);
        t.push_back(C(tab[d]));
    }
}

template <typename C>
static std::string units_str(const C *p, size_t n) {
    std::string s;
    char        b[16];
    for (size_t i = 0; i < n; i++) {
        snprintf(b, sizeof b, "%s%X", i ? " " : "", (unsigned)(uint32_t)(typename std::make_unsigned<C>::type)p[i]);
        s += b;
    }
    return s;
}

template <typename C>
static void one(uint32_t cp, const char *wname, vx::Ctx &ctx) {
    std::vector<uint32_t> exp;
    ref::encode(cp, (int)sizeof(C), exp);
    auto same = [&](const C *p, size_t n, size_t skip_front, size_t skip_back) {
        if (n != exp.size() + skip_front + skip_back) {
            return false;
        }
        for (size_t i = 0; i < exp.size(); i++) {
            if ((uint32_t)(typename std::make_unsigned<C>::type)p[i + skip_front] != exp[i]) {
                return false;
            }
        }
        return true;
    };
    std::string expected;
    {
        std::vector<C> e(exp.begin(), exp.end());
        expected = units_str(e.data(), e.size());
    }
    char key[96];
    // form 0: direct encoder
    {
        StringStream<C> ss;
        Unicode::ToUTF<C>(cp, ss);
        ctx.acc.count("evals");
        if (!same(ss.First(), ss.Length(), 0, 0)) {
            snprintf(key, sizeof key, "U+%04X %s ToUTF", cp, wname);
            ctx.fail(key, "expected units " + expected + " got " + units_str(ss.First(), ss.Length()));
        }
    }
    // forms 1..: JSON escapes; casing 0 upper, 1 lower, 2 mixed; embedded or alone; via Parse and via UnEscape
    for (int casing = 0; casing < 3; casing++) {
        for (int embed = 0; embed < 2; embed++) {
            std::vector<C> t;
            t.push_back(C('['));
            t.push_back(C('"'));
            if (embed) {
                t.push_back(C('a'));
            }
            if (cp < 0x10000) {
                put_escape(t, cp, casing);
            } else {
                uint32_t v = cp - 0x10000;
                put_escape(t, 0xD800 + (v >> 10), casing);
                put_escape(t, 0xDC00 + (v & 0x3FF), casing);
            }
            if (embed) {
                t.push_back(C('b'));
            }
            t.push_back(C('"'));
            t.push_back(C(']'));
            // exact-size copy (no terminator)
            C *buf = (C *)malloc(t.size() * sizeof(C));
            memcpy(buf, t.data(), t.size() * sizeof(C));
            {
                Value<C> v = JSON::Parse(buf, SizeT(t.size()));
                ctx.acc.count("evals");
                const Value<C> *item = v.GetValue(SizeT{0});
                bool            ok   = v.IsArray() && v.Size() == 1 && item != nullptr && item->IsString();
                if (ok) {
                    const C *p = item->StringStorage();
                    size_t   n = item->Length();
                    ok         = same(p, n, embed, embed);
                    if (ok && embed) {
                        ok = (p[0] == C('a')) && (p[n - 1] == C('b'));
                    }
                    if (ok && p[n] != C(0)) {
                        ok = false; // String keeps a terminator
                    }
                }
                if (!ok) {
                    snprintf(key, sizeof key, "U+%04X %s JSON::Parse casing=%d embed=%d", cp, wname, casing, embed);
                    std::string got = "(not an array of one string)";
                    if (item != nullptr && item->IsString()) {
                        got = units_str(item->StringStorage(), item->Length());
                    }
                    ctx.fail(key, "expected units " + expected + (embed ? " between a,b" : "") + " got " + got);
                }
            }
            {
                // the un-escaper itself, on the string body (after the opening quote), explicit remaining length
                StringStream<C> ss;
                SizeT           body = SizeT(t.size() - 3); // without [ " and ]
                SizeT           r    = JSONUtils::UnEscape(buf + 2, body, ss);
                ctx.acc.count("evals");
                bool ok = (r == body) && same(ss.First(), ss.Length(), embed, embed);
                if (!ok) {
                    snprintf(key, sizeof key, "U+%04X %s JSONUtils::UnEscape casing=%d embed=%d", cp, wname, casing, embed);
                    ctx.fail(key, "expected units " + expected + " got " + units_str(ss.First(), ss.Length()) +
                                      " consumed " + std::to_string(r) + "/" + std::to_string(body));
                }
            }
            free(buf);
        }
    }
}

static const int64_t CHUNK = 2048;

int main(int argc, char **argv) {
    return vx::standard_main(argc, argv, [](const vx::Args &a) {
        vx::Plan plan;
        plan.engine = "numx";
        plan.rule   = "every Unicode scalar value U+0000..U+10FFFF (surrogates excluded) x {char,char16_t,char32_t,wchar_t} x "
                      "{ToUTF, JSON::Parse and JSONUtils::UnEscape of \\uXXXX in upper/lower/mixed hex, alone and inside "
                      "\"a..b\"}; a case is one code point; all are distinct by construction";
        plan.bounds = "complete space: 1112064 scalar values";
        plan.states_counter = "states";
        // cross-check the reference encoder against python's encodings (oracle for the oracle)
        std::string table = a.get("table", "build/utf_ref.bin");
        FILE       *f     = fopen(table.c_str(), "rb");
        static std::string herr;
        if (!f) {
            herr = "cannot open " + table;
        } else {
            unsigned char rec[14];
            uint64_t      n = 0;
            while (fread(rec, 1, 14, f) == 14) {
                uint32_t cp;
                memcpy(&cp, rec, 4);
                std::vector<uint32_t> e8, e16;
                ref::encode(cp, 1, e8);
                ref::encode(cp, 2, e16);
                bool ok = (e8.size() == rec[4]) && (e16.size() == rec[9]);
                for (size_t i = 0; ok && i < e8.size(); i++) {
                    ok = (e8[i] == rec[5 + i]);
                }
                for (size_t i = 0; ok && i < e16.size(); i++) {
                    uint16_t u;
                    memcpy(&u, rec + 10 + 2 * i, 2);
                    ok = (e16[i] == u);
                }
                if (!ok && herr.empty()) {
                    herr = "reference encoder disagrees with python at U+" + std::to_string(cp);
                }
                ++n;
            }
            fclose(f);
            if (n != 1112064 && herr.empty()) {
                herr = "python table has " + std::to_string(n) + " records";
            }
        }
        vx::Stage st;
        st.name   = "scalars";
        st.chunks = (0x110000 + CHUNK - 1) / CHUNK;
        st.fn     = [](int64_t chunk, vx::Ctx &ctx) {
            for (uint32_t cp = uint32_t(chunk * CHUNK); cp < uint32_t((chunk + 1) * CHUNK) && cp < 0x110000; cp++) {
                if (!ref::is_scalar(cp)) {
                    continue;
                }
                if (!ctx.next()) {
                    continue;
                }
                if (ctx.want_desc()) {
                    char b[32];
                    snprintf(b, sizeof b, "U+%04X", cp);
                    ctx.describe(b);
                }
                const size_t before = ctx.acc.violations.size() + ctx.acc.dropped_violations;
                one<char>(cp, "char", ctx);
                one<char16_t>(cp, "char16_t", ctx);
                one<char32_t>(cp, "char32_t", ctx);
                one<wchar_t>(cp, "wchar_t", ctx);
                ctx.acc.count("states");
                ctx.acc.count("distinct");
                if (vx::ledger().live != 0 || vx::ledger().foreign != 0) {
                    ctx.fail("ledger after U+" + std::to_string(cp), "live blocks or foreign release after the case");
                    vx::ledger().clear();
                }
                if ((cp & 0x3FFF) == 0x41 && before == ctx.acc.violations.size() + ctx.acc.dropped_violations) {
                    char b[64];
                    snprintf(b, sizeof b, "U+%04X in 4 widths x 13 forms", cp);
                    ctx.acc.sample(b);
                }
            }
        };
        plan.stages.push_back(st);
        plan.transitions_counter = "evals";
        plan.finish = [](vx::Part &p) {
            p.harness_error = herr;
            p.distinct_extra = p.acc.counters["distinct"];
        };
        plan.assumptions = {"reference encoder (ref/utf_ref.hpp) is cross-checked against python3 str.encode for all scalars",
                            "wchar_t is 4 bytes on this platform"};
        return plan;
    });
}
