// C07 - JSON parsing is all-or-nothing: truncated, trailing or mis-bracketed input is rejected.
#include "json_common.hpp"
#include "utf_ref.hpp"
#include "json_ref.hpp"
#include "json_gen.hpp"

using namespace jgen;

struct Bufs {
    langx::Exact<char>     e8;
    langx::Exact<char16_t> e16;
    langx::Exact<char32_t> e32;
};

// the document parsed right after every rejected text, through the same caller-supplied stream: a rejected text must
// not leave anything behind that changes what the next document parses to
template <typename C>
struct Follow {
    StringStream<C> stream; // the parser's scratch stream, supplied by the caller and reused
    Text            good;
    std::string     expect;
    Follow() {
        good = to_units<C>(T("[\"x\\ny\",\"z\",{\"k\":\"v\"}]"));
        StringStream<C> fresh;
        Value<C>        v = JSON::Parse(fresh, good.data() ? reinterpret_cast<const C *>(copy().data()) : nullptr, SizeT(good.size()));
        expect            = ref::dump(v);
    }
    std::basic_string<C> copy() const {
        std::basic_string<C> c;
        for (auto u : good) {
            c.push_back((C)u);
        }
        return c;
    }
};

template <typename C>
static void must_reject(const Text &cps, const char *how, langx::Exact<C> &ex, vx::Ctx &ctx) {
    static Follow<C> follow;
    Text             units = to_units<C>(cps);
    const C         *p     = ex.put(units);
    {
        Value<C> v = JSON::Parse(follow.stream, p, SizeT(units.size()));
        ctx.acc.count("evals");
        if (!v.IsUndefined()) {
            ctx.fail(std::string(wname<C>()) + " " + how + " " + langx::show(cps), "accepted as " + ref::dump(v));
        }
    }
    {
        const std::basic_string<C> g = follow.copy();
        Value<C>                   v = JSON::Parse(follow.stream, g.data(), SizeT(g.size()));
        ctx.acc.count("evals");
        const std::string d = ref::dump(v);
        if (d != follow.expect) {
            ctx.fail(std::string(wname<C>()) + " after " + how + " " + langx::show(cps),
                     "the next document parsed through the same stream gives " + d + ", alone it gives " + follow.expect);
        }
    }
    follow.stream.Reset(); // nothing of the library's stays allocated between cases (the ledger is checked per case)
}

// a string literal as the whole document: accepted as that string, every proper prefix rejected
template <typename C>
static void scalar_string(const Text &lit, langx::Exact<C> &ex, vx::Ctx &ctx) {
    Text     units = to_units<C>(lit);
    const C *p     = ex.put(units);
    Value<C> v     = JSON::Parse(p, SizeT(units.size()));
    ctx.acc.count("evals");
    if (!v.IsString()) {
        ctx.acc.count("rejected_valid_docs"); // C06's business
    }
    for (size_t n = 0; n < lit.size(); n++) {
        must_reject<C>(lit.substr(0, n), "string-prefix", ex, ctx);
    }
    for (char32_t sfx : {U'x', U'"', U',', U']', U'\\', U'0'}) {
        Text t = lit;
        t.push_back(sfx);
        must_reject<C>(t, "string-suffix", ex, ctx);
    }
}

static void family(const Text &d, const std::vector<size_t> &closers, Bufs &b, vx::Ctx &ctx) {
    // proper prefixes (code-point level; for UTF-8/16 also every code-unit cut is covered below)
    for (size_t n = 0; n < d.size(); n++) {
        Text pre = d.substr(0, n);
        ctx.acc.count("transitions");
        must_reject<char>(pre, "prefix", b.e8, ctx);
        must_reject<char16_t>(pre, "prefix", b.e16, ctx);
        must_reject<char32_t>(pre, "prefix", b.e32, ctx);
    }
    // code-unit prefixes in UTF-8 (cuts inside a multi-byte character)
    {
        Text u8 = to_units<char>(d);
        if (u8.size() != d.size()) {
            for (size_t n = 0; n < u8.size(); n++) {
                Text        pre = u8.substr(0, n);
                const char *p   = b.e8.put(pre);
                Value<char> v   = JSON::Parse(p, SizeT(pre.size()));
                ctx.acc.count("evals");
                if (!v.IsUndefined()) {
                    ctx.fail("char unit-prefix " + langx::show(pre), "accepted as " + ref::dump(v));
                }
            }
        }
    }
    // trailing non-whitespace
    // every 7-bit unit that is not one of the four JSON whitespace characters, plus look-alikes of whitespace
    static std::vector<char32_t> suffixes;
    if (suffixes.empty()) {
        for (char32_t u = 0; u < 0x80; u++) {
            if (u != ' ' && u != '\t' && u != '\n' && u != '\r') {
                suffixes.push_back(u);
            }
        }
        for (char32_t u : {0x80, 0x85, 0xA0, 0xE9, 0x2028, 0x3000, 0xFEFF}) {
            suffixes.push_back(u);
        }
    }
    for (char32_t s : suffixes) {
        Text t = d;
        t.push_back(s);
        ctx.acc.count("transitions");
        must_reject<char>(t, "suffix", b.e8, ctx);
        must_reject<char16_t>(t, "suffix", b.e16, ctx);
        must_reject<char32_t>(t, "suffix", b.e32, ctx);
        Text t2 = d;
        t2.push_back(' ');
        t2.push_back(s);
        must_reject<char>(t2, "ws+suffix", b.e8, ctx);
    }
    // closing bracket replaced by the other kind, or removed
    for (size_t c : closers) {
        Text t = d;
        t[c]   = (d[c] == ']') ? '}' : ']';
        ctx.acc.count("transitions");
        must_reject<char>(t, "swapped-closer", b.e8, ctx);
        must_reject<char16_t>(t, "swapped-closer", b.e16, ctx);
        must_reject<char32_t>(t, "swapped-closer", b.e32, ctx);
        Text r = d.substr(0, c) + d.substr(c + 1);
        must_reject<char>(r, "removed-closer", b.e8, ctx);
        must_reject<char16_t>(r, "removed-closer", b.e16, ctx);
        must_reject<char32_t>(r, "removed-closer", b.e32, ctx);
    }
}

static const int64_t NCH = 128;

int main(int argc, char **argv) {
    return vx::standard_main(argc, argv, [](const vx::Args &a) {
        vx::Plan plan;
        plan.engine      = "langx";
        const int  nodes = atoi(a.get("nodes", "4").c_str());
        const int  nu    = atoi(a.get("units", "5").c_str());
        const bool th    = a.thorough();
        plan.rule = "for every generated RFC 8259 container document D (<=" + std::to_string(nodes) +
                    " nodes, scalar pools, no trailing whitespace): all proper prefixes (code points and UTF-8 code units), D followed by "
                    "each of the 124 non-whitespace 7-bit units and 7 whitespace look-alikes (with and without a space), every closing bracket swapped or removed - all must "
                    "yield Undefined, and the document parsed next through the same caller-supplied stream gives what it gives alone; every string "
                    "literal of the pools as a whole document: every proper prefix and six suffixes rejected; six documents with a high-surrogate "
                    "escape that nothing follows, with their families; plus every string of <=" + std::to_string(nu) + " units over the C05 alphabet: an accepted text "
                    "must contain no Undefined node and re-parse from its own Stringify to the same tree; distinct = documents + "
                    "distinct accepted trees";
        plan.bounds = "nodes<=" + std::to_string(nodes) + " units<=" + std::to_string(nu);
        {
            vx::Stage st;
            st.name   = "families";
            st.chunks = NCH;
            st.fn     = [nodes, th](int64_t chunk, vx::Ctx &ctx) {
                static Bufs b;
                all_docs(nodes, th, chunk, NCH, false, [&](const Text &t, const std::vector<size_t> &closers, int) {
                    ctx.acc.count("states");
                    if (!ctx.next()) {
                        return;
                    }
                    if (ctx.want_desc()) {
                        ctx.describe(langx::show(t));
                    }
                    // D itself must be accepted (otherwise the family would be vacuous)
                    {
                        const char *p = b.e8.put(to_units<char>(t));
                        Value<char> v = JSON::Parse(p, SizeT(to_units<char>(t).size()));
                        if (v.IsUndefined()) {
                            ctx.acc.count("rejected_valid_docs"); // C06's business; counted, not judged here
                        }
                    }
                    family(t, closers, b, ctx);
                    ctx.acc.count("distinct");
                    ledger_ok(ctx, langx::show(t));
                    if ((ctx.idx % 3001) == 5) {
                        ctx.acc.sample("family of " + langx::show(t));
                    }
                });
            };
            plan.stages.push_back(st);
        }
        {
            // a string literal as the whole document (the statement's first sentence; the family above only has containers)
            vx::Stage st;
            st.name   = "scalar-strings";
            st.chunks = 16;
            st.fn     = [th](int64_t chunk, vx::Ctx &ctx) {
                static Bufs  b;
                static Pools pools_q = make_pools(false), pools_t = make_pools(true);
                const Pools &P       = th ? pools_t : pools_q;
                for (size_t i = (size_t)chunk; i < P.strings.size(); i += 16) {
                    if (!ctx.next()) {
                        continue;
                    }
                    if (ctx.want_desc()) {
                        ctx.describe("document " + langx::show(P.strings[i]));
                    }
                    ctx.acc.count("states");
                    ctx.acc.count("distinct");
                    scalar_string<char>(P.strings[i], b.e8, ctx);
                    scalar_string<char16_t>(P.strings[i], b.e16, ctx);
                    scalar_string<char32_t>(P.strings[i], b.e32, ctx);
                    Text padded = T(" ") + P.strings[i];
                    scalar_string<char>(padded, b.e8, ctx);
                    ledger_ok(ctx, langx::show(P.strings[i]));
                }
            };
            plan.stages.push_back(st);
        }
        {
            // a string whose closing quote stands among the four units behind a \\u (alone, in a second half of a pair, padded, in
            // containers): the string never ends, so the text is not one complete value
            vx::Stage st;
            st.name   = "quote-inside-escape";
            st.chunks = 1;
            st.fn     = [](int64_t, vx::Ctx &ctx) {
                static Bufs b;
                std::vector<std::string> heads = {"\"", "\"abc", " \t\"", "\"\\n", "\"\\uD83D", "\"\\u0041"};
                std::vector<std::string> tails = {"\\u\"", "\\u0\"", "\\u00\"", "\\u004\"", "\\u\"\"\"\"", "\\uD83D\\uDE0\"", "\\uD83D\\u\"", "\\U00e\""};
                for (auto &h : heads) {
                    for (auto &t : tails) {
                        for (const char *wrap : {"", "[", "{\"k\":"}) {
                            if (!ctx.next()) {
                                continue;
                            }
                            const std::string doc = std::string(wrap) + h + t;
                            if (ctx.want_desc()) {
                                ctx.describe("document " + doc);
                            }
                            ctx.acc.count("states");
                            ctx.acc.count("distinct");
                            must_reject<char>(T(doc.c_str()), "quote-inside-escape", b.e8, ctx);
                            must_reject<char16_t>(T(doc.c_str()), "quote-inside-escape", b.e16, ctx);
                            must_reject<char32_t>(T(doc.c_str()), "quote-inside-escape", b.e32, ctx);
                            ledger_ok(ctx, doc);
                        }
                    }
                }
            };
            plan.stages.push_back(st);
        }
        {
            // documents with a high-surrogate escape that no low one follows (legal by the RFC grammar): the escape ends where its
            // four digits end - it must not take the closing quote, a comma or a bracket with it
            vx::Stage st;
            st.name   = "lone-surrogates";
            st.chunks = 1;
            st.fn     = [](int64_t, vx::Ctx &ctx) {
                static Bufs b;
                struct {
                    const char *doc;
                    unsigned    size;
                } docs[] = {{"[\"\\uD800\",\"abc\"]", 2}, {"{\"\\uD800\":1,\"b\":2}", 2}, {"[\"\\uD800abcd\",\"]\"]", 2}, {"[\"\\uDBFF\"]", 1},
                            {"[\"x\\uD83D\",[],\"\\uD83D\"]", 3}, {"[\"\\uD800\\n\",1]", 2}};
                for (auto &d : docs) {
                    if (!ctx.next()) {
                        continue;
                    }
                    const Text t = T(d.doc);
                    if (ctx.want_desc()) {
                        ctx.describe(langx::show(t));
                    }
                    ctx.acc.count("states");
                    ctx.acc.count("distinct");
                    {
                        const char *p = b.e8.put(to_units<char>(t));
                        Value<char> v = JSON::Parse(p, SizeT(t.size()));
                        ctx.acc.count("evals");
                        if (v.IsUndefined() || v.Size() != d.size) {
                            ctx.fail("char document " + langx::show(t), v.IsUndefined() ? std::string("rejected") : "parsed to " + std::to_string(v.Size()) + " items/members, it has " + std::to_string(d.size));
                        }
                    }
                    std::vector<size_t> closers;
                    for (size_t i = 0; i < t.size(); i++) {
                        if ((t[i] == ']' || t[i] == '}') && (i + 1 == t.size())) {
                            closers.push_back(i);
                        }
                    }
                    family(t, closers, b, ctx);
                    ledger_ok(ctx, langx::show(t));
                }
            };
            plan.stages.push_back(st);
        }
        {
            // accepted texts of the unit space are complete values and survive a stringify/parse cycle
            static langx::Alphabet au;
            au = langx::Alphabet();
            const char *units = "{}[]\":,\\/uD890-+.eEtrfnals \n";
            for (const char *p = units; *p; p++) {
                au.tokens.push_back(Text(1, (unsigned char)*p));
            }
            au.tokens.push_back(Text(1, 0));
            au.tokens.push_back(Text(1, 0x01));
            au.tokens.push_back(Text(1, 0x80));
            vx::Stage st;
            st.name   = "accepted";
            st.chunks = langx::sigma_chunks(au, nu, 2);
            st.fn     = [nu](int64_t chunk, vx::Ctx &ctx) {
                static Bufs b;
                langx::sigma_walk(au, nu, 2, chunk, ctx, [&](const Text &t, int, bool) {
                    if (!ctx.next()) {
                        return;
                    }
                    if (ctx.want_desc()) {
                        ctx.describe(langx::show(t));
                    }
                    JsonOutcome o = parse_one<char>(t, b.e8, true);
                    ctx.acc.count("evals");
                    if (!o.undefined) {
                        ctx.acc.count("accepted");
                        ctx.acc.outcome(vx::hstr(o.dump));
                        if (o.partial) {
                            ctx.fail("char accepted " + langx::show(t), "partially built tree: " + o.dump);
                        } else if (!o.fixed_point) {
                            ctx.fail("char accepted " + langx::show(t), "tree " + o.dump + " does not survive Stringify+Parse: " + o.restr);
                        }
                    }
                });
            };
            plan.stages.push_back(st);
        }
        plan.finish = [](vx::Part &p) { p.distinct_extra = p.acc.counters["distinct"]; };
        plan.assumptions = {"the number grammar's lenient extensions (+1, 0x1F, .5) are complete values for this parser and are not "
                            "members of the statement's family"};
        return plan;
    });
}
