// C17 - rendering is pure: cached, repeated and concurrent renders are identical; no data races.
// Engine E4: preemption-bounded exhaustive exploration of the interleavings of 2-3 renders that share the parsed tags
// and the value(s), with a conflict (race) monitor over every load/store of the instrumented code.
// This TU (explorer) and engine/sched/sched_rt.cpp (scheduler) are NOT instrumented; props/C17_body.cpp is.
#include "vx_main.hpp"
#include "sched/sched_rt.hpp"

using sched::RunResult;

struct Explorer {
    int       nthreads;
    int       bound;
    vx::Ctx  *ctx;
    int       config;
    uint64_t  schedules = 0;
    std::unordered_set<uint64_t> outcomes;

    int preemptions_before(const RunResult &x, size_t i) const {
        int n = 0;
        for (size_t j = 0; j < i; j++) {
            if (x.choices[j] != 0 && x.cur_enabled[j]) {
                n++;
            }
        }
        return n;
    }
    static std::string sched_str(const std::vector<uint8_t> &p) {
        std::string s;
        size_t      run = 0;
        for (size_t i = 0; i < p.size(); i++) {
            if (p[i] == 0) {
                run++;
            } else {
                s += std::to_string(run) + "x0," + std::to_string(p[i]) + ",";
                run = 0;
            }
        }
        return s + std::to_string(run) + "x0";
    }
    // runs one schedule and judges it; returns the run (for extension)
    RunResult one(const std::vector<uint8_t> &prefix) {
        sched::body().reset();
        RunResult x = sched::run_schedule(nthreads, prefix);
        ++schedules;
        ctx->acc.count("evals");
        ctx->acc.count("transitions", x.choices.size());
        std::string key = sched::body().describe(config) + " threads=" + std::to_string(nthreads) + " schedule=" + sched_str(prefix);
        if (x.diverged) {
            ctx->acc.fail("harness: schedule diverged while replaying a prefix: " + key, "nondeterminism in the body", "");
            return x;
        }
        std::string err;
        if (!sched::body().check(err)) {
            ctx->fail(key, err);
        }
        if (x.conflicts != 0) {
            ctx->fail(key, "data race: " + std::to_string(x.conflicts) + " shared granule(s) written by one render and touched by another; first: " + x.first_conflict);
        }
        return x;
    }
    void explore(const std::vector<uint8_t> &prefix, bool judge_this) {
        if (!ctx->next()) {
            // the enumeration below still needs the run to know the points
        }
        if (ctx->want_desc() && ctx->idx == ctx->only_idx) {
            ctx->describe(sched::body().describe(config) + " threads=" + std::to_string(nthreads) + " schedule=" + sched_str(prefix));
        }
        (void)judge_this;
        RunResult x = one(prefix);
        if (x.diverged) {
            return;
        }
        for (size_t i = prefix.size(); i < x.choices.size(); i++) {
            int cost = preemptions_before(x, i) + (x.cur_enabled[i] ? 1 : 0);
            if (cost > bound) {
                continue;
            }
            for (uint8_t alt = 1; alt < x.enabled[i]; alt++) {
                std::vector<uint8_t> p(x.choices.begin(), x.choices.begin() + (long)i);
                p.push_back(alt);
                explore(p, true);
            }
        }
    }
};

int main(int argc, char **argv) {
    return vx::standard_main(argc, argv, [](const vx::Args &a) {
        vx::Plan  plan;
        const int bound  = atoi(a.get("preemptions", "1").c_str());
        const int bound3 = atoi(a.get("preemptions3", "1").c_str());
        const int ncfg   = sched::body().configs();
        plan.engine = "sched";
        plan.rule = "2 and 3 renders as coroutines under a controlled scheduler; every load/store of the code under test (clang trace-loads/"
                    "trace-stores) to memory that is not the coroutine's own stack or its own allocation is a scheduling point and is recorded; "
                    "ALL schedules with <=" + std::to_string(bound) + " preemptions (2 threads) / <=" + std::to_string(bound3) + " (3 threads) are "
                    "executed for " + std::to_string(ncfg) + " (template, values) configurations (18 templates covering every tag kind incl. "
                    "sort/group x same value / different values / a value whose loop sets are pointer-to-value members); after each: every output equals a fresh single render, the tag cache dump and "
                    "the values' Stringify are unchanged, stream prefixes intact, and no shared granule was written by one render and touched "
                    "by another (conflict-free => every interleaving is equivalent to the serial one)";
        plan.bounds = "preemptions<=" + std::to_string(bound) + " (2 threads), <=" + std::to_string(bound3) + " (3 threads)";
        vx::Stage st;
        st.name   = "schedules";
        st.chunks = ncfg * 2;
        st.hang_s = 120;
        st.fn     = [bound, bound3, ncfg](int64_t chunk, vx::Ctx &ctx) {
            int config = (int)(chunk % ncfg);
            int nt     = chunk < ncfg ? 2 : 3;
            sched::body().setup(config, nt);
            Explorer ex;
            ex.nthreads = nt;
            ex.bound    = nt == 2 ? bound : bound3;
            ex.ctx      = &ctx;
            ex.config   = config;
            // serial schedule first: the conflict analysis that makes the bound complete
            ex.explore({}, true);
            ctx.acc.count("states", ex.schedules);
            if (config % 7 == 0) {
                ctx.acc.sample(sched::body().describe(config) + " threads=" + std::to_string(nt) + ": " + std::to_string(ex.schedules) + " schedules");
            }
            sched::body().teardown();
        };
        plan.stages.push_back(st);
        {
            const int depth = atoi(a.get("seqdepth", "3").c_str());
            vx::Stage s2;
            s2.name   = "sequential-histories";
            s2.chunks = sched::body().templates();
            s2.hang_s = 300;
            s2.fn     = [depth](int64_t chunk, vx::Ctx &ctx) {
                if (!ctx.next()) {
                    return;
                }
                if (ctx.want_desc()) {
                    ctx.describe("sequential histories of template #" + std::to_string(chunk));
                }
                std::string err;
                uint64_t    n = sched::body().sequential((int)chunk, depth, err);
                ctx.acc.count("evals", n);
                ctx.acc.count("states", n);
                ctx.acc.count("transitions", n);
                if (!err.empty()) {
                    ctx.fail("sequential template #" + std::to_string(chunk), err);
                }
            };
            plan.stages.push_back(s2);
            plan.rule += " || sequential: every history of <=" + std::to_string(depth) + " steps over {render value 0..3 (3 = sets reached through pointer-to-value members) into a fresh or pre-filled "
                         "stream through the cache, replace the cache by its copy, move the cache} for 18 templates: each render equals the fresh render; before them every value rendered into a stream already holding 0..72 units; each equals the fresh "
                         "render, cache dump and values unchanged";
        }
        plan.assumptions = {"sequential consistency; allocator internals and libc are outside the monitor",
                            "conflict = a shared 8-byte granule written by one render and accessed by another (the code has no synchronisation, so "
                            "this is a data race); private = own coroutine stack or a block the coroutine allocated during the concurrent phase",
                            "a free-running ThreadSanitizer pass over the same bodies is run as supporting evidence"};
        plan.finish = [](vx::Part &p) { p.distinct_extra = p.acc.counters["states"]; };
        return plan;
    });
}
