#ifndef C14_SYS_HPP
#define C14_SYS_HPP
// C14 - Array, String, StringStream and StringView behave as plain sequences; Memory::Copy/SetToZero are exact.
// Engine E1 (seqx): breadth-first search over operation histories on two registers of each container, reference
// models std::vector / std::basic_string, checked after every transition through the public read API.
#include "vx_ledger.hpp"
#include "vx_main.hpp"
#include "seqx.hpp"
#include "Array.hpp"
#include "String.hpp"
#include "StringView.hpp"
#include "StringStream.hpp"
#include <utility>

using namespace Qentem;

// objects are constructed in storage pre-filled with 0xAB so that a read of an uninitialised field is deterministic
#ifndef VX_SLOT_DEFINED
#define VX_SLOT_DEFINED
template <typename T>
struct Slot {
    alignas(16) unsigned char raw[sizeof(T)];
    T *p = nullptr;
    Slot() {
        memset(raw, 0xAB, sizeof raw);
        p = new (raw) T();
    }
    ~Slot() { p->~T(); }
    T &operator*() { return *p; }
    T *operator->() { return p; }
};
#endif

// ---------------------------------------------------------------------------------------------------------
// element type that owns a heap block and counts constructions / destructions
struct Tracked {
    int *v;
    static long &live() {
        static long n = 0;
        return n;
    }
    Tracked() : v(new int(0)) { ++live(); }
    Tracked(int x) : v(new int(x)) { ++live(); }
    Tracked(const Tracked &o) : v(new int(*o.v)) { ++live(); }
    Tracked(Tracked &&o) noexcept : v(o.v) {
        o.v = new int(-1);
        ++live();
    }
    Tracked &operator=(const Tracked &o) {
        if (this != &o) {
            *v = *o.v;
        }
        return *this;
    }
    Tracked &operator=(Tracked &&o) noexcept {
        if (this != &o) {
            std::swap(v, o.v);
        }
        return *this;
    }
    ~Tracked() {
        delete v;
        v = nullptr;
        --live();
    }
    int  get() const { return *v; }
    bool operator<(const Tracked &o) const { return *v < *o.v; }
    bool operator>(const Tracked &o) const { return *v > *o.v; }
};
static int  getv(const int &x) { return x; }
static int  getv(const Tracked &x) { return x.get(); }

struct OpDesc {
    const char *name;
    int         a;
};

// ---------------------------------------------------------------------------------------------------------
template <typename T>
struct ArraySys {
    Slot<Array<T>>   A, B;
    std::vector<int> ma, mb;
    long             live0;
    ArraySys() : live0(Tracked::live()) {}
    ~ArraySys() {}

    static const std::vector<OpDesc> &ops() {
        static std::vector<OpDesc> o = {
            {"A+=item&&", 1},   {"A+=item&&", 2},    {"A+=const item&", 3}, {"A.Insert(item&&)", 4}, {"A.Insert(const item&)", 1},
            {"B+=item&&", 7},   {"B+=item&&", 2},    {"A+=B", 0},           {"A+=move(B)", 0},       {"A+=A", 0},
            {"A.Insert(B)", 0}, {"A.Insert(move(B))", 0}, {"A=B", 0},       {"A=move(B)", 0},        {"A=A", 0},
            {"B=A", 0},         {"B=Array(A) (copy ctor)", 0}, {"B=Array(move(A)) (move ctor)", 0},
            {"A.Clear", 0},     {"A.Reset", 0},      {"A.Reserve", 0},      {"A.Reserve", 3},        {"A.Reserve+init", 2},
            {"A.Resize", 0},    {"A.Resize", 1},     {"A.Resize", 2},       {"A.Resize", 5},         {"A.ResizeAndInitialize", 0},
            {"A.ResizeAndInitialize", 1}, {"A.ResizeAndInitialize", 3},     {"A.Expect", 0},         {"A.Expect", 2},
            {"A.Compress", 0},  {"A.Drop", 0},       {"A.Drop", 1},         {"A.Drop", 2},           {"A.Drop(Size)", 0},
            {"A.Drop(Size+1)", 0}, {"A.Sort asc", 0}, {"A.Sort desc", 0},   {"A.Swap(first,last)", 0}, {"A.Detach+free", 0},
            {"A=Array(n)", 2},  {"A=Array(n,init)", 2}, {"*A.Last()=9", 0},
            {"A+=own first item (const&)", 0}, {"A.Insert(own last item const&)", 0},
            {"A+=move(A)", 0}, {"A.Insert(move(A))", 0},
        };
        return o;
    }
    static int         num_ops() { return (int)ops().size(); }
    static std::string op_name(int i) { return std::string(ops()[(size_t)i].name) + (ops()[(size_t)i].a ? "(" + std::to_string(ops()[(size_t)i].a) + ")" : ""); }

    static std::string cmp(Array<T> &a, const std::vector<int> &m, const char *nm) {
        char b[200];
        if (a.Size() != m.size()) {
            snprintf(b, sizeof b, "%s.Size() is %u, model has %zu", nm, (unsigned)a.Size(), m.size());
            return b;
        }
        if (a.Size() > a.Capacity()) {
            snprintf(b, sizeof b, "%s.Size() %u > Capacity() %u", nm, (unsigned)a.Size(), (unsigned)a.Capacity());
            return b;
        }
        if ((a.Capacity() == 0) != (a.Storage() == nullptr) && a.Capacity() != 0) {
            return std::string(nm) + " has capacity but no storage";
        }
        for (size_t i = 0; i < m.size(); i++) {
            if (getv(a.First()[i]) != m[i]) {
                snprintf(b, sizeof b, "%s[%zu] is %d, model has %d", nm, i, getv(a.First()[i]), m[i]);
                return b;
            }
        }
        if (a.IsEmpty() != m.empty() || a.IsNotEmpty() == m.empty()) {
            return std::string(nm) + ".IsEmpty disagrees";
        }
        if (m.empty()) {
            if (a.Last() != nullptr) {
                return std::string(nm) + ".Last() of an empty array is not null";
            }
        } else if (a.Last() != a.Storage() + (m.size() - 1)) {
            return std::string(nm) + ".Last() does not point at the last item";
        }
        if (a.End() != a.First() + m.size()) {
            return std::string(nm) + ".End() wrong";
        }
        size_t n = 0;
        for (const T &x : a) {
            if (n >= m.size() || getv(x) != m[n]) {
                return std::string(nm) + " iteration differs";
            }
            n++;
        }
        return n == m.size() ? "" : std::string(nm) + " iteration count differs";
    }

    bool apply(int i, std::string &err) {
        const OpDesc &o = ops()[(size_t)i];
        Array<T>     &a = *A, &b = *B;
        const std::string n = o.name;
        if (n == "A+=item&&") {
            a += T(o.a);
            ma.push_back(o.a);
        } else if (n == "A+=const item&") {
            T t(o.a);
            a += t;
            ma.push_back(o.a);
        } else if (n == "A.Insert(item&&)") {
            T &r = a.Insert(T(o.a));
            ma.push_back(o.a);
            if (&r != a.Last()) {
                err = "Insert did not return the new item";
            }
        } else if (n == "A.Insert(const item&)") {
            T  t(o.a);
            T &r = a.Insert(t);
            ma.push_back(o.a);
            if (&r != a.Last()) {
                err = "Insert did not return the new item";
            }
        } else if (n == "B+=item&&") {
            b += T(o.a);
            mb.push_back(o.a);
        } else if (n == "A+=B" || n == "A.Insert(B)") {
            if (n == "A+=B") {
                a += b;
            } else {
                a.Insert(b);
            }
            ma.insert(ma.end(), mb.begin(), mb.end());
        } else if (n == "A+=move(B)" || n == "A.Insert(move(B))") {
            if (n == "A+=move(B)") {
                a += std::move(b);
            } else {
                a.Insert(std::move(b));
            }
            ma.insert(ma.end(), mb.begin(), mb.end());
            mb.clear();
        } else if (n == "A+=A") {
            a += a;
            std::vector<int> c = ma;
            ma.insert(ma.end(), c.begin(), c.end());
        } else if (n == "A+=move(A)" || n == "A.Insert(move(A))") {
            // appending the array to itself by move: nothing can be taken over, the result is the doubled sequence
            if (n == "A+=move(A)") {
                a += std::move(a);
            } else {
                a.Insert(std::move(a));
            }
            std::vector<int> c = ma;
            ma.insert(ma.end(), c.begin(), c.end());
        } else if (n == "A=B") {
            a  = b;
            ma = mb;
        } else if (n == "A=move(B)") {
            a  = std::move(b);
            ma = mb;
            mb.clear();
        } else if (n == "A=A") {
            Array<T> &alias = a;
            a               = alias;
        } else if (n == "B=A") {
            b  = a;
            mb = ma;
        } else if (n == "B=Array(A) (copy ctor)") {
            Array<T> c(a);
            b  = std::move(c);
            mb = ma;
        } else if (n == "B=Array(move(A)) (move ctor)") {
            Array<T> c(std::move(a));
            b  = std::move(c);
            mb = ma;
            ma.clear();
        } else if (n == "A.Clear") {
            a.Clear();
            ma.clear();
        } else if (n == "A.Reset") {
            a.Reset();
            ma.clear();
        } else if (n == "A.Reserve") {
            a.Reserve(SizeT(o.a));
            ma.clear();
            if (a.Capacity() < SizeT(o.a)) {
                err = "Reserve did not provide the capacity";
            }
        } else if (n == "A.Reserve+init") {
            a.Reserve(SizeT(o.a), true);
            ma.assign((size_t)o.a, 0);
        } else if (n == "A.Resize") {
            a.Resize(SizeT(o.a));
            if (ma.size() > (size_t)o.a) {
                ma.resize((size_t)o.a);
            }
            if (a.Capacity() != SizeT(o.a)) {
                err = "Resize(n) did not set the capacity to n";
            }
        } else if (n == "A.ResizeAndInitialize") {
            a.ResizeAndInitialize(SizeT(o.a));
            ma.resize((size_t)o.a, 0);
        } else if (n == "A.Expect") {
            a.Expect(SizeT(o.a));
            if (a.Capacity() < a.Size() + SizeT(o.a)) {
                err = "Expect(n) did not provide room for n more items";
            }
        } else if (n == "A.Compress") {
            a.Compress();
            if (a.Capacity() != a.Size()) {
                err = "Compress left excess capacity";
            }
        } else if (n == "A.Drop") {
            if ((size_t)o.a > ma.size()) {
                a.Drop(SizeT(o.a)); // documented as a no-op when larger than the size
            } else {
                a.Drop(SizeT(o.a));
                ma.resize(ma.size() - (size_t)o.a);
            }
        } else if (n == "A.Drop(Size)") {
            a.Drop(a.Size());
            ma.clear();
        } else if (n == "A.Drop(Size+1)") {
            a.Drop(a.Size() + 1);
        } else if (n == "A.Sort asc") {
            a.Sort(true);
            std::sort(ma.begin(), ma.end());
        } else if (n == "A.Sort desc") {
            a.Sort(false);
            std::sort(ma.begin(), ma.end(), [](int x, int y) { return x > y; });
        } else if (n == "A.Swap(first,last)") {
            if (ma.size() < 2) {
                return false;
            }
            a.Swap(a.Storage()[0], *a.Last());
            std::swap(ma.front(), ma.back());
        } else if (n == "A.Detach+free") {
            SizeT sz = a.Size();
            T    *p  = a.Detach();
            if (a.Size() != 0 || a.Capacity() != 0 || a.Storage() != nullptr) {
                err = "Detach left the array non-empty";
            }
            for (SizeT k = 0; k < sz; k++) {
                if (getv(p[k]) != ma[k]) {
                    err = "detached block does not hold the items";
                }
            }
            Memory::Dispose(p, p + sz);
            Memory::Deallocate(p);
            ma.clear();
        } else if (n == "A=Array(n)") {
            a = Array<T>(SizeT(o.a));
            ma.clear();
        } else if (n == "A=Array(n,init)") {
            a = Array<T>(SizeT(o.a), true);
            ma.assign((size_t)o.a, 0);
        } else if (n == "*A.Last()=9") {
            if (ma.empty()) {
                return false;
            }
            *a.Last() = T(9);
            ma.back()  = 9;
        } else if (n == "A+=own first item (const&)") {
            if (ma.empty()) {
                return false;
            }
            a += (const T &)*a.First(); // the argument lives in the array that may have to grow
            ma.push_back(ma.front());
        } else if (n == "A.Insert(own last item const&)") {
            if (ma.empty()) {
                return false;
            }
            a.Insert((const T &)*a.Last());
            ma.push_back(ma.back());
        } else {
            return false;
        }
        if (err.empty()) {
            err = cmp(a, ma, "A");
        }
        if (err.empty()) {
            err = cmp(b, mb, "B");
        }
        if (err.empty() && !std::is_same<T, int>::value) {
            long expect = (long)(ma.size() + mb.size());
            if (Tracked::live() - live0 != expect) {
                err = "live element objects " + std::to_string(Tracked::live() - live0) + ", containers hold " + std::to_string(expect) +
                      " (element constructed/destroyed the wrong number of times)";
            }
        }
        return true;
    }
    std::string key() {
        std::string k;
        for (int v : ma) {
            k += std::to_string(v) + ",";
        }
        k += "|";
        for (int v : mb) {
            k += std::to_string(v) + ",";
        }
        k += "|" + std::to_string(A->Capacity()) + "|" + std::to_string(B->Capacity());
        return k;
    }
};

// ---------------------------------------------------------------------------------------------------------
template <typename C>
static std::basic_string<C> lit(const char *s, size_t n) {
    std::basic_string<C> r;
    for (size_t i = 0; i < n; i++) {
        // in the wide instantiations 'b' stands for a unit above 0xFF (0xFFFF) whose low byte (low half) is 'a': code that cuts
        // units down to a narrower type takes it for 'a'
        const C wide_b = (sizeof(C) == 1) ? C('b') : ((sizeof(C) == 2) ? C(0x161) : C(0x10061));
        r.push_back(s[i] == 'b' ? wide_b : (C)(unsigned char)s[i]);
    }
    return r;
}
template <typename C>
static std::string show(const std::basic_string<C> &s) {
    std::string o;
    for (C c : s) {
        if (c >= 0x20 && c < 0x7f) {
            o += char(c);
        } else {
            o += "\\" + std::to_string((unsigned)c);
        }
    }
    return o;
}

template <typename C>
struct StringSys {
    using S  = String<C>;
    using MS = std::basic_string<C>;
    Slot<S> A, B;
    MS      ma, mb;

    static const std::vector<OpDesc> &ops() {
        static std::vector<OpDesc> o = {
            {"A=\"\"", 0},      {"A=\"a\"", 0},       {"A=\"ab\"", 0},         {"A=String(\"b\\0c\",3)", 0}, {"A=String(\"  a \",4)", 0},
            {"B=\"a\"", 0},     {"B=\"b\"", 0},       {"B=\"ab\"", 0},         {"A=B", 0},                 {"A=move(B)", 0},
            {"A=A", 0},         {"A=own characters from the second on (const C*)", 0}, {"A+=move(A)", 0}, {"B=String(A)", 0},   {"B=String(move(A))", 0}, {"A+=B", 0},               {"A+=move(B)", 0},
            {"A+=A", 0},        {"A+=\"c\"", 0},      {"A+=\"\"", 0},          {"A+='x'", 0},              {"A<<\"d\"", 0},
            {"A<<B", 0},        {"A=A+B", 0},         {"A=A+move(B)", 0},      {"A=A+\"z\"", 0},           {"A=Merge(B,A)", 0},
            {"A.Write(\"pq\",2)", 0}, {"A.Write(A.First()+1,1)", 0},           {"A.Write(A.First(),Length)", 0}, {"A.Write(nullptr,0)", 0},
            {"A.Reset", 0},     {"A.Detach+free", 0}, {"A.StepBack", 0},       {"A.StepBack", 1},          {"A.StepBack(Length)", 0},
            {"A.StepBack(Length+1)", 0}, {"A.Reverse", 0}, {"A.Reverse", 1},   {"A.InsertAt('i',0)", 0},   {"A.InsertAt('i',1)", 0},
            {"A.InsertAt('i',Length-1)", 0}, {"A.InsertAt('i',Length)", 0},    {"A=Trim(A)", 0},           {"A=String(n)+fill", 2},
            {"*A.Last()='L'", 0},
        };
        return o;
    }
    static int         num_ops() { return (int)ops().size(); }
    static std::string op_name(int i) { return std::string(ops()[(size_t)i].name) + (ops()[(size_t)i].a ? "(" + std::to_string(ops()[(size_t)i].a) + ")" : ""); }

    static int sgn(int x) { return (x > 0) - (x < 0); }
    static std::string cmp(const S &s, const MS &m, const char *nm) {
        char b[300];
        if (s.Length() != m.size()) {
            snprintf(b, sizeof b, "%s.Length() is %u, model \"%s\" has %zu", nm, (unsigned)s.Length(), show(m).c_str(), m.size());
            return b;
        }
        if (s.Storage() == nullptr) {
            if (!m.empty()) {
                return std::string(nm) + " has no storage but the model is not empty";
            }
        } else {
            for (size_t i = 0; i < m.size(); i++) {
                if (s.First()[i] != m[i]) {
                    snprintf(b, sizeof b, "%s[%zu] is %u, model \"%s\"", nm, i, (unsigned)s.First()[i], show(m).c_str());
                    return b;
                }
            }
            if (s.First()[m.size()] != C(0)) {
                return std::string(nm) + " is not NUL-terminated (model \"" + show(m) + "\")";
            }
        }
        if (s.IsEmpty() != m.empty() || s.IsNotEmpty() == m.empty()) {
            return std::string(nm) + ".IsEmpty disagrees";
        }
        if (s.End() != s.First() + m.size()) {
            return std::string(nm) + ".End() wrong";
        }
        const S &cs = s;
        if (m.empty() ? (cs.Last() != nullptr) : (cs.Last() != s.First() + m.size() - 1)) {
            return std::string(nm) + ".Last() wrong";
        }
        if (!s.IsEqual(m.data(), SizeT(m.size()))) {
            return std::string(nm) + ".IsEqual(own content) is false";
        }
        return "";
    }
    // all comparison operators of String and StringView against the model's lexicographic order
    static std::string order(const S &x, const MS &mx, const S &y, const MS &my) {
        const int c = sgn(mx.compare(my));
        bool ok = ((x == y) == (c == 0)) && ((x != y) == (c != 0));
        if (!ok) {
            return "==/!= between \"" + show(mx) + "\" and \"" + show(my) + "\" disagree with the contents";
        }
        // views over the same contents (needs storage)
        if (x.Storage() != nullptr && y.Storage() != nullptr) {
            StringView<C> vx(x.First(), x.Length()), vy(y.First(), y.Length());
            if ((vx == vy) != (c == 0) || (vx != vy) != (c != 0)) {
                return "StringView ==/!= disagree for \"" + show(mx) + "\" and \"" + show(my) + "\"";
            }
            StringView<C> cp(vx);
            StringView<C> mv(std::move(cp));
            if (mv.First() != x.First() || mv.Length() != x.Length() || cp.Length() != 0) {
                return "StringView copy/move wrong";
            }
        }
        // comparison with a C string stops at the first NUL of the literal
        if (y.Storage() != nullptr) {
            MS cy(y.First()); // up to the first NUL
            bool e = (mx == cy);
            if ((x == y.First()) != e || (x != y.First()) == e) {
                return "String == const C* disagrees for \"" + show(mx) + "\" and \"" + show(cy) + "\"";
            }
        }
        return "";
    }

    bool apply(int i, std::string &err) {
        const std::string n = ops()[(size_t)i].name;
        const int         arg = ops()[(size_t)i].a;
        S                &a = *A, &b = *B;
        auto L = [](const char *s, size_t k) { return lit<C>(s, k); };
        if (n == "A=\"\"") {
            MS t = L("", 0);
            a    = t.c_str();
            ma   = t;
        } else if (n == "A=\"a\"") {
            MS t = L("a", 1);
            a    = t.c_str();
            ma   = t;
        } else if (n == "A=\"ab\"") {
            MS t = L("ab", 2);
            a    = t.c_str();
            ma   = t;
        } else if (n == "A=String(\"b\\0c\",3)") {
            MS t = L("b\0c", 3);
            a    = S((const C *)t.data(), SizeT(3));
            ma   = t;
        } else if (n == "A=String(\"  a \",4)") {
            MS t = L("  a ", 4);
            a    = S((const C *)t.data(), SizeT(4));
            ma   = t;
        } else if (n == "B=\"a\"" || n == "B=\"b\"" || n == "B=\"ab\"") {
            MS t = n == "B=\"a\"" ? L("a", 1) : (n == "B=\"b\"" ? L("b", 1) : L("ab", 2));
            b    = S(t.c_str());
            mb   = t;
        } else if (n == "A=B") {
            a  = b;
            ma = mb;
        } else if (n == "A=move(B)") {
            a  = std::move(b);
            ma = mb;
            mb.clear();
        } else if (n == "A=A") {
            S &alias = a;
            a        = alias;
        } else if (n == "A+=move(A)") {
            a += std::move(a); // appending the string to itself, by move as well
            ma += MS(ma);
        } else if (n == "A=own characters from the second on (const C*)") {
            if (ma.size() < 2 || ma.find(typename MS::value_type(0)) != MS::npos) {
                return false; // needs a terminated tail without embedded NUL
            }
            a = a.First() + 1; // the argument points into the string that is assigned to
            ma.erase(0, 1);
        } else if (n == "B=String(A)") {
            S c(a);
            b  = std::move(c);
            mb = ma;
        } else if (n == "B=String(move(A))") {
            S c(std::move(a));
            b  = std::move(c);
            mb = ma;
            ma.clear();
        } else if (n == "A+=B") {
            a += b;
            ma += mb;
        } else if (n == "A+=move(B)") {
            a += std::move(b);
            ma += mb;
            mb.clear();
        } else if (n == "A+=A") {
            a += a;
            ma += MS(ma);
        } else if (n == "A+=\"c\"") {
            MS t = L("c", 1);
            a += t.c_str();
            ma += t;
        } else if (n == "A+=\"\"") {
            MS t;
            a += t.c_str();
        } else if (n == "A+='x'") {
            a += C('x');
            ma.push_back(C('x'));
        } else if (n == "A<<\"d\"") {
            MS t = L("d", 1);
            a << t.c_str();
            ma += t;
        } else if (n == "A<<B") {
            a << b;
            ma += mb;
        } else if (n == "A=A+B") {
            S r = a + b;
            a   = std::move(r);
            ma += mb;
        } else if (n == "A=A+move(B)") {
            S r = a + std::move(b);
            a   = std::move(r);
            ma += mb;
            mb.clear();
        } else if (n == "A=A+\"z\"") {
            MS t = L("z", 1);
            S  r = a + t.c_str();
            a    = std::move(r);
            ma += t;
        } else if (n == "A=Merge(B,A)") {
            S r = S::Merge(b, a);
            a   = std::move(r);
            ma  = mb + ma;
        } else if (n == "A.Write(\"pq\",2)") {
            MS t = L("pq", 2);
            a.Write(t.data(), SizeT(2));
            ma += t;
        } else if (n == "A.Write(A.First()+1,1)") {
            if (ma.size() < 2) {
                return false;
            }
            a.Write(a.First() + 1, SizeT(1));
            ma.push_back(ma[1]);
        } else if (n == "A.Write(A.First(),Length)") {
            a.Write(a.First(), a.Length());
            ma += MS(ma);
        } else if (n == "A.Write(nullptr,0)") {
            a.Write(nullptr, SizeT(0));
        } else if (n == "A.Reset") {
            a.Reset();
            ma.clear();
        } else if (n == "A.Detach+free") {
            C *p = a.Detach();
            if (a.Length() != 0 || a.Storage() != nullptr) {
                err = "Detach left the string non-empty";
            }
            if (p != nullptr && (MS(p, ma.size()) != ma || p[ma.size()] != C(0))) {
                err = "detached buffer does not hold the terminated content";
            }
            Memory::Deallocate(p);
            ma.clear();
        } else if (n == "A.StepBack") {
            a.StepBack(SizeT(arg));
            if ((size_t)arg <= ma.size()) {
                ma.resize(ma.size() - (size_t)arg);
            }
        } else if (n == "A.StepBack(Length)") {
            a.StepBack(a.Length());
            ma.clear();
        } else if (n == "A.StepBack(Length+1)") {
            a.StepBack(a.Length() + 1);
        } else if (n == "A.Reverse") {
            a.Reverse(SizeT(arg));
            if ((size_t)arg < ma.size()) {
                std::reverse(ma.begin() + arg, ma.end());
            }
        } else if (n.rfind("A.InsertAt", 0) == 0) {
            size_t idx = n == "A.InsertAt('i',0)" ? 0 : (n == "A.InsertAt('i',1)" ? 1 : (n == "A.InsertAt('i',Length-1)" ? ma.size() - 1 : ma.size()));
            if (n == "A.InsertAt('i',Length-1)" && ma.empty()) {
                return false;
            }
            a.InsertAt(C('i'), SizeT(idx));
            if (idx < ma.size()) {
                ma.insert(ma.begin() + (long)idx, C('i'));
            }
        } else if (n == "A=Trim(A)") {
            S r = S::Trim(a);
            a   = std::move(r);
            size_t s0 = 0, e0 = ma.size();
            auto   ws = [](C c) { return c == ' ' || c == '\n' || c == '\t' || c == '\r'; };
            while (s0 < e0 && ws(ma[s0])) {
                s0++;
            }
            while (e0 > s0 && ws(ma[e0 - 1])) {
                e0--;
            }
            ma = ma.substr(s0, e0 - s0);
        } else if (n == "A=String(n)+fill") {
            S r{SizeT(arg)};
            if (r.Length() != SizeT(arg) || r.Storage()[arg] != C(0)) {
                err = "String(n) is not a terminated buffer of n units";
            }
            for (int k = 0; k < arg; k++) {
                r.Storage()[k] = C('f');
            }
            a  = std::move(r);
            ma = MS((size_t)arg, C('f'));
        } else if (n == "*A.Last()='L'") {
            if (ma.empty()) {
                return false;
            }
            *a.Last()  = C('L');
            ma.back() = C('L');
        } else {
            return false;
        }
        if (err.empty()) {
            err = cmp(a, ma, "A");
        }
        if (err.empty()) {
            err = cmp(b, mb, "B");
        }
        if (err.empty()) {
            err = order(a, ma, b, mb);
        }
        if (err.empty()) {
            err = order(b, mb, a, ma);
        }
        return true;
    }
    std::string key() {
        std::string k = show(ma) + "|" + show(mb) + "|" + (A->Storage() ? "s" : "n") + (B->Storage() ? "s" : "n");
        return k;
    }
};

// ---------------------------------------------------------------------------------------------------------
template <typename C>
struct StreamSys {
    using SS = StringStream<C>;
    using MS = std::basic_string<C>;
    Slot<SS> A, B;
    MS       ma, mb;

    static const std::vector<OpDesc> &ops() {
        static std::vector<OpDesc> o = {
            {"A+='x'", 0},        {"A+=\"ab\"", 0},     {"A+=\"\"", 0},        {"A+=String(\"cd\")", 0}, {"A+=B", 0},
            {"A+=A", 0},          {"A<<A", 0},          {"A<<B", 0},           {"A<<'y'", 0},          {"A<<\"ef\"", 0},
            {"A<<String(\"g\")", 0}, {"A<<StringView(\"hi\")", 0}, {"B+='b'", 0}, {"B+=\"12345678\"", 0}, {"A=B", 0},
            {"A=move(B)", 0},     {"A=A", 0},           {"A=\"jk\"", 0},       {"A=String(\"l\")", 0}, {"A=StringView(\"mn\")", 0},
            {"B=SS(A)", 0},       {"B=SS(move(A))", 0}, {"A.Write(\"op\",2)", 0}, {"A.Write(A.First(),Length)", 0}, {"A.Write(A.First()+1,1)", 0},
            {"A.Write(x,0)", 0},  {"A.Clear", 0},       {"A.Reset", 0},        {"A.StepBack", 0},      {"A.StepBack", 1},
            {"A.StepBack(Length+1)", 0}, {"A.Reverse", 0}, {"A.Reverse", 1},   {"A.InsertAt('i',0)", 0}, {"A.InsertAt('i',Length-1)", 0},
            {"A.InsertAt('i',Length)", 0}, {"A.SetLength(Length-1)", 0},       {"A.Buffer(2)+fill", 0}, {"A.Buffer(0)", 0},
            {"A.Expect", 1},      {"A.Expect", 9},      {"A.Reserve", 0},      {"A.Reserve", 3},       {"A.Detach+free", 0},
            {"A.GetString", 0},   {"A.GetStringView", 0}, {"A.InsertNull", 0}, {"A=SS(n)", 5},
        };
        return o;
    }
    static int         num_ops() { return (int)ops().size(); }
    static std::string op_name(int i) { return std::string(ops()[(size_t)i].name) + (ops()[(size_t)i].a ? "(" + std::to_string(ops()[(size_t)i].a) + ")" : ""); }

    static std::string cmp(const SS &s, const MS &m, const char *nm) {
        char b[300];
        if (s.Length() != m.size()) {
            snprintf(b, sizeof b, "%s.Length() is %u, model \"%s\" has %zu", nm, (unsigned)s.Length(), show(m).c_str(), m.size());
            return b;
        }
        if (s.Length() > s.Capacity()) {
            return std::string(nm) + ".Length() > Capacity()";
        }
        for (size_t i = 0; i < m.size(); i++) {
            if (s.First()[i] != m[i]) {
                snprintf(b, sizeof b, "%s[%zu] is %u, model \"%s\"", nm, i, (unsigned)s.First()[i], show(m).c_str());
                return b;
            }
        }
        if (s.IsEmpty() != m.empty() || s.IsNotEmpty() == m.empty()) {
            return std::string(nm) + ".IsEmpty disagrees";
        }
        if (m.empty() ? (s.Last() != nullptr) : (s.Last() != s.Storage() + m.size() - 1)) {
            return std::string(nm) + ".Last() wrong";
        }
        if (s.End() != s.First() + m.size()) {
            return std::string(nm) + ".End() wrong";
        }
        if (!s.IsEqual(m.data(), SizeT(m.size()))) {
            return std::string(nm) + ".IsEqual(own content) false";
        }
        return "";
    }
    static std::string eqs(const SS &x, const MS &mx, const SS &y, const MS &my) {
        bool e = (mx == my);
        if ((x == y) != e || (x != y) == e) {
            return "stream ==/!= stream disagree for \"" + show(mx) + "\" / \"" + show(my) + "\"";
        }
        String<C> sy(my.data(), SizeT(my.size()));
        if ((x == sy) != e || (x != sy) == e) {
            return "stream ==/!= String disagree";
        }
        StringView<C> vy(sy.First(), sy.Length());
        if ((x == vy) != e || (x != vy) == e) {
            return "stream ==/!= StringView disagree";
        }
        MS cy(sy.First());
        bool ec = (mx == cy);
        if ((x == sy.First()) != ec || (x != sy.First()) == ec) {
            return "stream ==/!= const C* disagree for \"" + show(mx) + "\" / \"" + show(cy) + "\"";
        }
        return "";
    }

    bool apply(int i, std::string &err) {
        const std::string n   = ops()[(size_t)i].name;
        const int         arg = ops()[(size_t)i].a;
        SS               &a = *A, &b = *B;
        auto L = [](const char *s, size_t k) { return lit<C>(s, k); };
        if (n == "A+='x'") {
            a += C('x');
            ma.push_back(C('x'));
        } else if (n == "A+=\"ab\"") {
            MS t = L("ab", 2);
            a += t.c_str();
            ma += t;
        } else if (n == "A+=\"\"") {
            MS t;
            a += t.c_str();
        } else if (n == "A+=String(\"cd\")") {
            MS        t = L("cd", 2);
            String<C> s(t.c_str());
            a += s;
            ma += t;
        } else if (n == "A+=B") {
            a += b;
            ma += mb;
        } else if (n == "A+=A") {
            a += a;
            ma += MS(ma);
        } else if (n == "A<<A") {
            a << a;
            ma += MS(ma);
        } else if (n == "A<<B") {
            a << b;
            ma += mb;
        } else if (n == "A<<'y'") {
            a << C('y');
            ma.push_back(C('y'));
        } else if (n == "A<<\"ef\"") {
            MS t = L("ef", 2);
            a << t.c_str();
            ma += t;
        } else if (n == "A<<String(\"g\")") {
            MS        t = L("g", 1);
            String<C> s(t.c_str());
            a << s;
            ma += t;
        } else if (n == "A<<StringView(\"hi\")") {
            MS            t = L("hi", 2);
            StringView<C> v(t.data(), SizeT(2));
            a << v;
            ma += t;
        } else if (n == "B+='b'") {
            b += C('b');
            mb.push_back(C('b'));
        } else if (n == "B+=\"12345678\"") {
            MS t = L("12345678", 8);
            b += t.c_str();
            mb += t;
        } else if (n == "A=B") {
            a  = b;
            ma = mb;
        } else if (n == "A=move(B)") {
            a  = std::move(b);
            ma = mb;
            mb.clear();
        } else if (n == "A=A") {
            SS &alias = a;
            a         = alias;
        } else if (n == "A=\"jk\"") {
            MS t = L("jk", 2);
            a    = t.c_str();
            ma   = t;
        } else if (n == "A=String(\"l\")") {
            MS        t = L("l", 1);
            String<C> s(t.c_str());
            a  = s;
            ma = t;
        } else if (n == "A=StringView(\"mn\")") {
            MS            t = L("mn", 2);
            StringView<C> v(t.data(), SizeT(2));
            a  = v;
            ma = t;
        } else if (n == "B=SS(A)") {
            SS c(a);
            b  = std::move(c);
            mb = ma;
        } else if (n == "B=SS(move(A))") {
            SS c(std::move(a));
            b  = std::move(c);
            mb = ma;
            ma.clear();
        } else if (n == "A.Write(\"op\",2)") {
            MS t = L("op", 2);
            a.Write(t.data(), SizeT(2));
            ma += t;
        } else if (n == "A.Write(A.First(),Length)") {
            a.Write(a.First(), a.Length());
            ma += MS(ma);
        } else if (n == "A.Write(A.First()+1,1)") {
            if (ma.size() < 2) {
                return false;
            }
            a.Write(a.First() + 1, SizeT(1));
            ma.push_back(ma[1]);
        } else if (n == "A.Write(x,0)") {
            C x = C('x');
            a.Write(&x, SizeT(0));
        } else if (n == "A.Clear") {
            a.Clear();
            ma.clear();
        } else if (n == "A.Reset") {
            a.Reset();
            ma.clear();
            if (a.Capacity() != 0 || a.Storage() != nullptr) {
                err = "Reset left storage behind";
            }
        } else if (n == "A.StepBack") {
            a.StepBack(SizeT(arg));
            if ((size_t)arg <= ma.size()) {
                ma.resize(ma.size() - (size_t)arg);
            }
        } else if (n == "A.StepBack(Length+1)") {
            a.StepBack(a.Length() + 1);
        } else if (n == "A.Reverse") {
            a.Reverse(SizeT(arg));
            if ((size_t)arg < ma.size()) {
                std::reverse(ma.begin() + arg, ma.end());
            }
        } else if (n.rfind("A.InsertAt", 0) == 0) {
            if (n == "A.InsertAt('i',Length-1)" && ma.empty()) {
                return false;
            }
            size_t idx = n == "A.InsertAt('i',0)" ? 0 : (n == "A.InsertAt('i',Length-1)" ? ma.size() - 1 : ma.size());
            a.InsertAt(C('i'), SizeT(idx));
            if (idx < ma.size()) {
                ma.insert(ma.begin() + (long)idx, C('i'));
            }
        } else if (n == "A.SetLength(Length-1)") {
            if (ma.empty()) {
                return false;
            }
            a.SetLength(a.Length() - 1);
            ma.pop_back();
        } else if (n == "A.Buffer(2)+fill") {
            C *p = a.Buffer(SizeT(2));
            p[0] = C('u');
            p[1] = C('v');
            ma += L("uv", 2);
        } else if (n == "A.Buffer(0)") {
            a.Buffer(SizeT(0));
        } else if (n == "A.Expect") {
            a.Expect(SizeT(arg));
            if (a.Capacity() < a.Length() + SizeT(arg)) {
                err = "Expect(n) did not provide room";
            }
        } else if (n == "A.Reserve") {
            a.Reserve(SizeT(arg));
            ma.clear();
            if (a.Capacity() < SizeT(arg)) {
                err = "Reserve(n) did not provide the capacity";
            }
        } else if (n == "A.Detach+free") {
            C *p = a.Detach();
            if (a.Length() != 0 || a.Capacity() != 0 || a.Storage() != nullptr) {
                err = "Detach left the stream non-empty";
            }
            if (p != nullptr && MS(p, ma.size()) != ma) {
                err = "detached buffer differs from the content";
            }
            Memory::Deallocate(p);
            ma.clear();
        } else if (n == "A.GetString") {
            String<C> s = a.GetString();
            if (MS(s.First() ? s.First() : (const C *)U"", s.First() ? s.Length() : 0) != ma || (s.First() && s.First()[s.Length()] != C(0))) {
                err = "GetString returned \"" + show(MS(s.First() ? s.First() : (const C *)U"", s.First() ? s.Length() : 0)) + "\" for content \"" + show(ma) + "\"";
            }
            ma.clear();
        } else if (n == "A.GetStringView") {
            StringView<C> v = a.GetStringView();
            if (v.First() == nullptr) {
                err = "GetStringView returned a view without storage";
            } else if (MS(v.First(), v.Length()) != ma || v.First()[v.Length()] != C(0)) {
                err = "GetStringView differs from the content or is not terminated";
            }
        } else if (n == "A.InsertNull") {
            a.InsertNull();
            if (a.First()[a.Length()] != C(0)) {
                err = "InsertNull did not terminate";
            }
        } else if (n == "A=SS(n)") {
            SS c{SizeT(arg)};
            if (c.Capacity() < SizeT(arg) || c.Length() != 0) {
                err = "StringStream(n) has the wrong capacity/length";
            }
            a = std::move(c);
            ma.clear();
        } else {
            return false;
        }
        if (err.empty()) {
            err = cmp(a, ma, "A");
        }
        if (err.empty()) {
            err = cmp(b, mb, "B");
        }
        if (err.empty()) {
            err = eqs(a, ma, b, mb);
        }
        return true;
    }
    std::string key() {
        return show(ma) + "|" + show(mb) + "|" + std::to_string(A->Capacity()) + "|" + std::to_string(B->Capacity());
    }
};

// ---------------------------------------------------------------------------------------------------------
static void copy_stage(int64_t chunk, vx::Ctx &ctx, int maxlen) {
    // chunk = source misalignment (0..31); all destination misalignments and lengths
    static unsigned char *src = nullptr, *dst = nullptr, *ref = nullptr;
    const size_t          span = (((size_t)maxlen + 128) + 63) & ~(size_t)63;
    if (!src) {
        src = (unsigned char *)aligned_alloc(64, span * 2);
        dst = (unsigned char *)aligned_alloc(64, span * 2);
        ref = (unsigned char *)aligned_alloc(64, span * 2);
        for (size_t i = 0; i < span * 2; i++) {
            src[i] = (unsigned char)(i * 131 + 7);
        }
    }
    const int sm = (int)chunk;
    for (int dm = 0; dm < 32; dm++) {
        for (int len = 0; len <= maxlen; len++) {
            if (!ctx.next()) {
                continue;
            }
            if (ctx.want_desc()) {
                ctx.describe("Memory::Copy/SetToZero length " + std::to_string(len) + " src+" + std::to_string(sm) + " dst+" + std::to_string(dm));
            }
            memset(dst, 0xEE, span * 2);
            memset(ref, 0xEE, span * 2);
            Memory::Copy(dst + 32 + dm, src + sm, SizeT(len));
            memcpy(ref + 32 + dm, src + sm, (size_t)len);
            ctx.acc.count("evals");
            if (memcmp(dst, ref, span * 2) != 0) {
                ctx.fail("Memory::Copy length=" + std::to_string(len) + " src_misalign=" + std::to_string(sm) + " dst_misalign=" + std::to_string(dm),
                         "destination (with guard bytes) differs from memcpy");
            }
            memset(dst, 0xEE, span * 2);
            memset(ref, 0xEE, span * 2);
            Memory::SetToZero(dst + 32 + dm, SizeT(len));
            memset(ref + 32 + dm, 0, (size_t)len);
            ctx.acc.count("evals");
            if (memcmp(dst, ref, span * 2) != 0) {
                ctx.fail("Memory::SetToZero length=" + std::to_string(len) + " dst_misalign=" + std::to_string(dm), "differs from memset");
            }
            // 64-bit length type as well
            memset(dst, 0xEE, span * 2);
            Memory::Copy(dst + 32 + dm, src + sm, (unsigned long long)len);
            memset(ref, 0xEE, span * 2);
            memcpy(ref + 32 + dm, src + sm, (size_t)len);
            if (memcmp(dst, ref, span * 2) != 0) {
                ctx.fail("Memory::Copy<u64> length=" + std::to_string(len) + " src_misalign=" + std::to_string(sm) + " dst_misalign=" + std::to_string(dm),
                         "differs from memcpy");
            }
            ctx.acc.count("states");
        }
    }
}


#endif
