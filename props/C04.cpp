// C04 - expression evaluation equals exact arithmetic with the documented precedence.
// Engine E2 + reference evaluator: every flat expression with <= N operators over the 16 documented operators, with
// literal / parenthesised / variable operands, evaluated three ways (ParseExpressions+Evaluate, {math:}, <if case>).
#include "tmpl_common.hpp"
#include <cmath>
#include <set>

using TC = TemplateCore<char, Value<char>, StringStream<char>>;

#include "expr_ref.hpp"

// ---------------------------------------------------------------------------------------------------------
struct Operand {
    const char *text;
    RV          val;
};
static RV txt(const char *s) {
    RV r;
    r.text = true;
    r.str  = s;
    return r;
}
static std::vector<Operand> core_operands() {
    return {{"0", num(0, 0)},      {"1", num(1, 0)},         {"2", num(2, 0)},         {"3", num(3, 0)},        {"7", num(7, 0)},
            {"10", num(10, 0)},    {"-1", num(-1, 1)},       {"-2", num(-2, 1)},       {"0.5", num(0.5L, 2)},   {"2.5", num(2.5L, 2)},
            {"1.25", num(1.25L, 2)}, {"5e-1", num(0.5L, 2)}, {"1e1", num(10, 2)},      {"(1+2)", num(3, 0)},    {"(2*3)", num(6, 0)},
            {"(1-3)", num(-2, 1)}, {"( 7 / 2 )", num(3.5L, 2)}, {"((2))", num(2, 0)},
            // a whole negative REAL (kind matters for ^), and an unsigned literal above 2^63
            {"(-4/2)", num(-2, 2)}, {"-2.0", num(-2, 2)}};
}
static const char *VALUE_JSON = R"({"u":5,"i":-4,"r":1.5,"ns":"12","t":true,"f":false,"nl":null,"tx":"abc","es":"","o":{"k":2},"arr":[3,4]})";
static std::vector<Operand> var_operands() {
    auto tn = [](long double v, const char *s) {
        RV r   = num(v, 0);
        r.text = true;
        r.str  = s;
        return r;
    };
    return {{"{var:u}", num(5, 0)},    {"{var:i}", num(-4, 1)}, {"{var:r}", num(1.5L, 2)},  {"{var:ns}", tn(12, "12")}, {"{var:t}", tn(1, "true")},
            {"{var:f}", tn(0, "false")}, {"{var:nl}", tn(0, "null")}, {"{var:tx}", txt("abc")},   {"{var:es}", txt("")},    {"{var:missing}", none()},
            {"{var:o[k]}", num(2, 0)}, {"{var:arr[1]}", num(4, 0)}};
}
static std::vector<Operand> word_operands() { return {{"abc", txt("abc")}, {"abd", txt("abd")}, {"12", num(12, 0)}}; }

struct Rig {
    Value<char> value = from_json<char>(VALUE_JSON);
};

// judges one expression text against the admissible set
static void judge(const std::string &expr, const RSet &admit, Rig &rig, vx::Ctx &ctx, bool var_only_case) {
    for (auto &r : admit) {
        if (r.unspec) {
            ctx.acc.count("unspecified");
            return;
        }
    }
    ctx.acc.count("evals");
    TC                       core(expr.c_str(), SizeT(expr.size()));
    const Array<QExpression> exprs = TC::ParseExpressions(expr.c_str(), SizeT(expr.size()));
    if (exprs.IsEmpty()) {
        ctx.acc.count("not_accepted");
        return; // not accepted: the property speaks about accepted expressions
    }
    QExpression result;
    const bool  ok = core.Evaluate(result, exprs, rig.value);
    RV          got;
    if (ok) {
        switch (result.Type) {
            case QExpression::ExpressionType::NaturalNumber: got = num((long double)result.Value.Number.Natural, 0); break;
            case QExpression::ExpressionType::IntegerNumber: got = num((long double)result.Value.Number.Integer, 1); break;
            case QExpression::ExpressionType::RealNumber: got = num((long double)result.Value.Number.Real, 2); break;
            default: got = none();
        }
    }
    bool        match = false;
    std::string want;
    for (auto &r : admit) {
        char b[64];
        if (r.has && !(var_only_case && r.text)) {
            snprintf(b, sizeof b, "%.10Lg ", r.v);
            want += b;
        } else if (r.text && var_only_case && r.has) {
            // a lone string/boolean/null variable: its numeric view decides (numeric string -> its number, true -> 1, ...)
            snprintf(b, sizeof b, "%.10Lg ", r.v);
            want += b;
        } else if (r.text && !r.has) {
            want += "<text> ";
            // a lone text operand: a variable-only case is true iff the string is not empty; otherwise no value
            if (var_only_case) {
                if (got.has && got.v == (r.str.empty() ? 0 : 1)) {
                    match = true;
                }
            } else if (!got.has) {
                match = true;
            }
            continue;
        } else {
            want += "<no value> ";
        }
        if (r.has == got.has && (!r.has || fabsl(r.v - got.v) <= (r.inexact ? 1e-12L : 4e-15L) * (fabsl(r.v) > 1 ? fabsl(r.v) : 1))) {
            match = true;
        }
    }
    if (var_only_case && !match) {
        // a variable-only case that is missing / not text counts as false (0) - or no value
        for (auto &r : admit) {
            if (!r.has && !r.text && (!got.has || got.v == 0)) {
                match = true;
            }
        }
    }
    char g[64];
    if (got.has) {
        snprintf(g, sizeof g, "%.10Lg", got.v);
    } else {
        snprintf(g, sizeof g, "<no value>");
    }
    if (!match) {
        ctx.fail("expr " + expr, std::string("Evaluate gives ") + g + ", exact arithmetic admits { " + want + "}");
        return;
    }
    ctx.acc.outcome(vx::hstr(g));
    // the same through {math:} and <if case=...>
    {
        std::string        t1 = "{math:" + expr + "}";
        StringStream<char> ss;
        Template::Render(t1.c_str(), SizeT(t1.size()), rig.value, ss);
        std::string out(ss.First() ? ss.First() : "", ss.Length());
        if (!got.has) {
            if (out != t1) {
                ctx.fail("math " + expr, "expression without value rendered as '" + out + "' instead of its own source");
            }
        } else {
            // exact text only when the value needs at most two fraction digits
            long double scaled = got.v * 100;
            if (is_int(scaled) && fabsl(got.v) < 1e15L) {
                char b[64];
                if (is_int(got.v)) {
                    snprintf(b, sizeof b, "%.0Lf", got.v);
                } else {
                    snprintf(b, sizeof b, "%.2Lf", got.v);
                    size_t n = strlen(b);
                    while (n && b[n - 1] == '0') {
                        b[--n] = 0;
                    }
                }
                std::string exp = b;
                if (exp == "-0") {
                    exp = "0"; // sign of zero is not part of the property
                }
                if (out != exp && !(out == "-0" && exp == "0")) {
                    ctx.fail("math " + expr, "{math:} rendered '" + out + "', Evaluate gave " + g);
                }
            }
        }
        std::string        t2 = "<if case=\"" + expr + "\">T<else>F</if>";
        StringStream<char> s2;
        Template::Render(t2.c_str(), SizeT(t2.size()), rig.value, s2);
        std::string o2(s2.First() ? s2.First() : "", s2.Length());
        std::string e2 = (got.has && got.v > 0) ? "T" : "F";
        if (o2 != e2) {
            ctx.fail("if " + expr, "<if case> took branch '" + o2 + "', the value is " + g);
        }
        std::string        t3 = "{if case=\"" + expr + "\" true=\"T\" false=\"F\"}";
        StringStream<char> s3;
        Template::Render(t3.c_str(), SizeT(t3.size()), rig.value, s3);
        std::string o3(s3.First() ? s3.First() : "", s3.Length());
        // an unevaluable inline-if case prints nothing or the false part (document vs pinned suite)
        bool ok3 = got.has ? (o3 == e2) : (o3.empty() || o3 == "F");
        if (!ok3) {
            ctx.fail("inline-if " + expr, "{if case} printed '" + o3 + "', the value is " + g);
        }
    }
}

int main(int argc, char **argv) {
    return vx::standard_main(argc, argv, [](const vx::Args &a) {
        vx::Plan  plan;
        const int nops = atoi(a.get("ops", "3").c_str());
        plan.engine = "langx";
        plan.rule = "every flat expression with <=" + std::to_string(nops) + " operators over the 16 documented operators: (a) operands from 20 "
                    "literal/parenthesised forms (integers, negatives, decimals, exponent form, nested parentheses) chosen by a covering "
                    "rotation for 3-4 operators and exhaustively for <=2; (b) <=2 operators with every pair/triple of 12 variable operands "
                    "(unsigned, negative, real, numeric string, true, false, null, text, empty, missing, nested) and literals; (c) == / != with "
                    "bare words; each in 3 spacings; evaluated by ParseExpressions+Evaluate, {math:}, <if case>, {if case}; reference: exact "
                    "arithmetic on the operator sequence under the document's 7 levels, a SET of values where the document leaves the "
                    "association open (^ towers, ^ vs %, & vs |, comparisons among themselves, && vs ||)";
        plan.bounds = "operators<=" + std::to_string(nops);
        static std::vector<Operand> core = core_operands(), vars = var_operands(), words = word_operands();
        vx::Stage st;
        st.name   = "expressions";
        st.chunks = 16 * 16 + 3;
        st.fn     = [nops](int64_t chunk, vx::Ctx &ctx) {
            static Rig rig;
            auto run = [&](const std::vector<const Operand *> &opd, const std::vector<int> &ops) {
                ctx.acc.count("states");
                if (!ctx.next()) {
                    return;
                }
                std::vector<RSet> rs;
                for (auto o : opd) {
                    rs.push_back(RSet{o->val});
                }
                RSet admit = eval_level(rs, ops, 1);
                for (int spacing = 0; spacing < 3; spacing++) {
                    std::string e;
                    for (size_t i = 0; i < opd.size(); i++) {
                        if (i) {
                            e += spacing == 0 ? " " : (spacing == 2 ? "  " : "");
                            e += OPS[ops[i - 1]];
                            e += spacing == 0 ? " " : (spacing == 2 ? "   " : "");
                        }
                        e += opd[i]->text;
                    }
                    if (spacing == 2) {
                        e = " " + e + " ";
                    }
                    if (ctx.want_desc()) {
                        ctx.describe(e);
                    }
                    ctx.acc.count("transitions");
                    judge(e, admit, rig, ctx, opd.size() == 1 && opd[0]->text[0] == '{');
                    if (spacing == 0 && (ctx.idx % 9001) == 7) {
                        ctx.acc.sample(e);
                    }
                }
            };
            const size_t NC = core.size();
            if (chunk < 256) {
                // first two operators fixed by the chunk
                const int o1 = (int)(chunk / 16), o2 = (int)(chunk % 16);
                // one operator (only once per o1)
                if (o2 == 0) {
                    for (size_t x = 0; x < NC; x++) {
                        for (size_t y = 0; y < NC; y++) {
                            run({&core[x], &core[y]}, {o1});
                        }
                    }
                }
                // two operators: all triples of core operands
                for (size_t x = 0; x < NC; x++) {
                    for (size_t y = 0; y < NC; y++) {
                        for (size_t z = 0; z < NC; z++) {
                            run({&core[x], &core[y], &core[z]}, {o1, o2});
                        }
                    }
                }
                if (nops >= 3) {
                    for (int o3 = 0; o3 < 16; o3++) {
                        // covering rotation over the 6 most telling operands
                        static const size_t pick[6] = {1, 2, 3, 7, 9, 13};
                        for (size_t x = 0; x < 6; x++) {
                            for (size_t y = 0; y < 6; y++) {
                                for (size_t z = 0; z < 6; z++) {
                                    for (size_t w = 0; w < 6; w++) {
                                        run({&core[pick[x]], &core[pick[y]], &core[pick[z]], &core[pick[w]]}, {o1, o2, o3});
                                        if (nops >= 4 && ((x + y + z + w) % 3) == 0) {
                                            for (int o4 = 0; o4 < 16; o4++) {
                                                run({&core[pick[x]], &core[pick[y]], &core[pick[z]], &core[pick[w]], &core[pick[(x + o4) % 6]]},
                                                    {o1, o2, o3, o4});
                                            }
                                        }
                                    }
                                }
                            }
                        }
                    }
                }
            } else if (chunk == 256) {
                // variables: single operand, pairs under every operator, triples with literals
                for (auto &v : vars) {
                    run({&v}, {});
                }
                for (int o1 = 0; o1 < 16; o1++) {
                    for (auto &x : vars) {
                        for (auto &y : vars) {
                            run({&x, &y}, {o1});
                        }
                        for (auto &y : core) {
                            run({&x, &y}, {o1});
                            run({&y, &x}, {o1});
                        }
                    }
                }
            } else if (chunk == 257) {
                for (int o1 = 0; o1 < 16; o1++) {
                    for (int o2 = 0; o2 < 16; o2++) {
                        for (auto &x : vars) {
                            for (auto &y : vars) {
                                run({&x, &core[2], &y}, {o1, o2});
                                run({&core[3], &x, &y}, {o1, o2});
                            }
                        }
                    }
                }
            } else {
                // == / != with bare words and text variables on either side
                for (int o1 : {2, 3}) {
                    std::vector<const Operand *> pool;
                    for (auto &w : words) {
                        pool.push_back(&w);
                    }
                    for (auto &v : vars) {
                        pool.push_back(&v);
                    }
                    pool.push_back(&core[1]);
                    pool.push_back(&core[9]);
                    for (auto x : pool) {
                        for (auto y : pool) {
                            run({x, y}, {o1});
                        }
                    }
                }
            }
        };
        plan.stages.push_back(st);
        {
            // every operator sequence of length `seqlen` with three fixed operand assignments (precedence/associativity across
            // many levels; the operand rotation above only reaches it in the thorough tier)
            const int seqlen = atoi(a.get("seqlen", "4").c_str());
            vx::Stage s3;
            s3.name   = "operator-sequences";
            s3.chunks = 256;
            s3.fn     = [seqlen](int64_t chunk, vx::Ctx &ctx) {
                static Rig rig;
                static const size_t assign[3][6] = {{4, 2, 3, 2, 1, 3}, {9, 7, 3, 13, 8, 1}, {1, 3, 2, 7, 2, 5}};
                int total = 1;
                for (int i = 2; i < seqlen; i++) {
                    total *= 16;
                }
                for (int code = 0; code < total; code++) {
                    std::vector<int> ops = {(int)(chunk / 16), (int)(chunk % 16)};
                    int              c   = code;
                    for (int i = 2; i < seqlen; i++) {
                        ops.push_back(c % 16);
                        c /= 16;
                    }
                    for (int as = 0; as < 3; as++) {
                        ctx.acc.count("states");
                        if (!ctx.next()) {
                            continue;
                        }
                        std::vector<RSet> rs;
                        std::string       e;
                        for (int i = 0; i <= seqlen; i++) {
                            const Operand &o = core[assign[as][i % 6]];
                            rs.push_back(RSet{o.val});
                            if (i) {
                                e += std::string(" ") + OPS[ops[(size_t)i - 1]] + " ";
                            }
                            e += o.text;
                        }
                        if (ctx.want_desc()) {
                            ctx.describe(e);
                        }
                        RSet admit = eval_level(rs, ops, 1);
                        ctx.acc.count("transitions");
                        judge(e, admit, rig, ctx, false);
                    }
                }
            };
            plan.stages.push_back(s3);
            plan.rule += " || every operator sequence of length " + std::to_string(seqlen) + " (16^" + std::to_string(seqlen) + ") with three fixed operand assignments";
        }
        {
            // unsigned literals above 2^63 under + - * /, the comparisons, the remainder and printing: operands and results fit
            // in 64 bits (bitwise operators work on the signed view and stay outside)
            vx::Stage s4;
            s4.name   = "large-unsigned";
            s4.chunks = 1;
            s4.fn     = [](int64_t, vx::Ctx &ctx) {
                static Rig      rig;
                const Operand   big{"10000000000000000000", num(10000000000000000000.0L, 0)};
                const Operand   big2{"18446744073709551615", num(18446744073709551615.0L, 0)};
                static std::vector<Operand> small = {{"1", num(1, 0)}, {"5", num(5, 0)}, {"2.5", num(2.5L, 2)}, {"0", num(0, 0)},
                                                            {"-2.5", num(-2.5L, 2)}, {"-5", num(-5, 1)}, {"7.25", num(7.25L, 2)}, {"0.5", num(0.5L, 2)}};
                for (const Operand *b : {&big, &big2}) {
                    if (ctx.next()) {
                        ctx.acc.count("states");
                        judge(b->text, RSet{b->val}, rig, ctx, false);
                    }
                    for (auto &sm : small) {
                        for (int op : {10, 11, 12, 13, 2, 3, 4, 5, 6, 7, 14}) { // + - * / and == != >= <= > < %
                            for (int swap = 0; swap < 2; swap++) {
                                if (!ctx.next()) {
                                    continue;
                                }
                                const Operand *x = swap ? &sm : b, *y = swap ? b : &sm;
                                std::string    e = std::string(x->text) + " " + OPS[op] + " " + y->text;
                                if (ctx.want_desc()) {
                                    ctx.describe(e);
                                }
                                ctx.acc.count("states");
                                judge(e, RSet{apply(op, x->val, y->val)}, rig, ctx, false);
                            }
                        }
                    }
                }
            };
            plan.stages.push_back(s4);
        }
        {
            // a whole base to a large negative exponent: a small real, whatever the size of base^|e| as a whole number
            vx::Stage s5;
            s5.name   = "large-negative-exponents";
            s5.chunks = 1;
            s5.fn     = [](int64_t, vx::Ctx &ctx) {
                static Rig rig;
                for (int base : {2, 3, 7, 10}) {
                    for (int e : {-1, -2, -19, -20, -31, -32, -39, -40, -62, -63, -64, -65, -100, -300}) {
                        const long double v = powl((long double)base, (long double)e);
                        struct {
                            std::string text;
                            long double val;
                        } cases[] = {{std::to_string(base) + " ^ " + std::to_string(e), v},
                                     {std::to_string(base) + " ^ " + std::to_string(e) + " > 1", 0},
                                     {std::to_string(base) + " ^ " + std::to_string(e) + " < 1", 1},
                                     {"(" + std::to_string(base) + " ^ " + std::to_string(e) + ") * 2.0", v * 2}};
                        for (auto &c : cases) {
                            if (!ctx.next()) {
                                continue;
                            }
                            if (ctx.want_desc()) {
                                ctx.describe(c.text);
                            }
                            ctx.acc.count("states");
                            RV want = num(c.val, 2);
                            want.inexact = true;
                            judge(c.text, RSet{want}, rig, ctx, false);
                        }
                    }
                }
            };
            plan.stages.push_back(s5);
        }
        {
            // negative base to a negative even exponent: judged here, once per operand form
            vx::Stage s2;
            s2.name   = "negative-base-negative-exponent";
            s2.chunks = 1;
            s2.fn     = [](int64_t, vx::Ctx &ctx) {
                static Rig rig;
                g_judge_negneg = true;
                for (const char *e : {"-2 ^ -2", "-1 ^ -2", "(1-3) ^ -2", "{var:i} ^ -2", "-2 ^ -1", "-2 ^ (1-3)"}) {
                    if (!ctx.next()) {
                        continue;
                    }
                    std::string es = e;
                    long double base = es[0] == '{' ? -4 : (es.rfind("-1", 0) == 0 ? -1 : -2);
                    long double ex   = es.find("-1", 3) != std::string::npos ? -1 : -2;
                    RV          want = apply(15, num(base, 1), num(ex, 1));
                    ctx.acc.count("states");
                    if (ctx.want_desc()) {
                        ctx.describe(e);
                    }
                    judge(e, RSet{want}, rig, ctx, false);
                }
                g_judge_negneg = false;
            };
            plan.stages.push_back(s2);
        }
        plan.finish = [](vx::Part &p) {
            uint64_t ev = p.acc.counters["evals"], na = p.acc.counters["not_accepted"];
            p.bounds += " | evaluated=" + std::to_string(ev) + " not_accepted=" + std::to_string(na) + " unspecified=" + std::to_string(p.acc.counters["unspecified"]);
            if (ev > 0 && na * 2 > ev) {
                p.harness_error = "more than half of the generated expressions are not accepted by the parser: vacuous";
            }
        };
        plan.assumptions = {"operands are dyadic rationals with small numerators: IEEE arithmetic is exact and nothing overflows 64 bits; the evaluator compares, "
                            "takes remainders and bit operations on the signed 64-bit view, so operands of 2^63 and above are judged only under + - * / "
                            "and printing (dedicated stage)",
                            "a leading sign adjacent to a literal is part of the literal (-3^2 = 9, pinned by EvaluateTest)",
                            "0^0, 0^negative, 0^fraction, a base strictly between 0 and 1 (pinned as 'no value' by EvaluateTest 19) and bitwise operators on "
                            "reals/negatives are not determined by the document: not judged",
                            "negative base with a negative exponent is judged once in a dedicated stage (known finding), not inside composites",
                            "{math:} text is compared only for results with at most two fraction digits (formatting is C10's subject)"};
        return plan;
    });
}
