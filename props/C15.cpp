// C15 - comparisons form a consistent order; every Sort returns an ordered permutation.
// Exhaustive over small alphabets: all pairs and triples of strings of length <= 4 over {a, b, 0x01}; all pairs and
// triples of 40 values of every kind; every array of length <= 5 over 4 values for every sort entry point.
#include "vx_ledger.hpp"
#include "vx_main.hpp"
#include "Value.hpp"
#include "Template.hpp"
#include <utility>

using namespace Qentem;

template <typename C>
static std::vector<std::basic_string<C>> all_strings(int maxlen) {
    std::vector<std::basic_string<C>> v;
    // 0xE9: negative as a plain char. Wider units have no sign problem; there the fourth unit lies above 0xFF (0xFFFF) and
    // has the low byte (low half) of 'a', so an order that looks at a truncated unit contradicts itself
    const C units[4] = {C('a'), C('b'), C(0x01), (sizeof(C) == 1) ? C(0xE9) : ((sizeof(C) == 2) ? C(0x161) : C(0x10061))};
    v.push_back({});
    size_t start = 0;
    for (int l = 1; l <= maxlen; l++) {
        size_t end = v.size();
        for (size_t i = start; i < end; i++) {
            for (C u : units) {
                v.push_back(v[i] + u);
            }
        }
        start = end;
    }
    return v;
}
template <typename C>
static std::string sshow(const std::basic_string<C> &s) {
    std::string o = "\"";
    for (C c : s) {
        o += (c == 1) ? std::string("\\1")
                      : ((unsigned)c == 0xE9 || (int)c == -23 ? std::string("\\xE9")
                                                              : ((unsigned)c == 0x161 ? std::string("\\u0161") : ((unsigned)c == 0x10061 ? std::string("\\U00010061") : std::string(1, char(c)))));
    }
    return o + "\"";
}
// reference: lexicographic by code unit, proper prefix first
template <typename C>
static int refcmp(const std::basic_string<C> &a, const std::basic_string<C> &b) {
    size_t n = std::min(a.size(), b.size());
    for (size_t i = 0; i < n; i++) {
        if (a[i] != b[i]) {
            return (typename std::make_unsigned<C>::type)a[i] < (typename std::make_unsigned<C>::type)b[i] ? -1 : 1;
        }
    }
    return a.size() == b.size() ? 0 : (a.size() < b.size() ? -1 : 1);
}

template <typename C>
static void string_pairs(int64_t chunk, int64_t nch, vx::Ctx &ctx, const char *wn) {
    static thread_local const std::vector<std::basic_string<C>> S = all_strings<C>(4);
    for (size_t i = (size_t)chunk; i < S.size(); i += (size_t)nch) {
        if (!ctx.next()) {
            continue;
        }
        if (ctx.want_desc()) {
            ctx.describe(std::string(wn) + " string " + sshow(S[i]) + " against all strings");
        }
        String<C> a(S[i].data(), SizeT(S[i].size()));
        for (size_t j = 0; j < S.size(); j++) {
            String<C>     b(S[j].data(), SizeT(S[j].size()));
            StringView<C> va(a.First(), a.Length()), vb(b.First(), b.Length());
            const int     c = refcmp(S[i], S[j]);
            struct R {
                bool lt, le, gt, ge, eq, ne;
            };
            auto judge = [&](const R &r, const char *what) {
                ctx.acc.count("evals");
                bool ok = (r.lt == (c < 0)) && (r.gt == (c > 0)) && (r.eq == (c == 0)) && (r.ne == (c != 0)) && (r.le == (c <= 0)) && (r.ge == (c >= 0));
                if (!ok) {
                    char d[200];
                    snprintf(d, sizeof d, "%s: < %d <= %d > %d >= %d == %d != %d, lexicographic order says %s", what, r.lt, r.le, r.gt, r.ge, r.eq, r.ne,
                             c < 0 ? "less" : (c > 0 ? "greater" : "equal"));
                    ctx.fail(std::string(wn) + " " + sshow(S[i]) + " vs " + sshow(S[j]), d);
                }
            };
            judge({a < b, a <= b, a > b, a >= b, a == b, a != b}, "String op String");
            judge({va < vb, va <= vb, va > vb, va >= vb, va == vb, va != vb}, "StringView op StringView");
            // const C* overloads (the alphabet has no NUL)
            judge({a < b.First(), a <= b.First(), a > b.First(), a >= b.First(), a == b.First(), a != b.First()}, "String op const C*");
            judge({va < b.First(), va <= b.First(), va > b.First(), va >= b.First(), va == b.First(), va != b.First()}, "StringView op const C*");
            const bool il = StringUtils::IsLess(a.First(), b.First(), a.Length(), b.Length(), false);
            const bool ile = StringUtils::IsLess(a.First(), b.First(), a.Length(), b.Length(), true);
            const bool ig = StringUtils::IsGreater(a.First(), b.First(), a.Length(), b.Length(), false);
            const bool ige = StringUtils::IsGreater(a.First(), b.First(), a.Length(), b.Length(), true);
            judge({il, ile, ig, ige, a.IsEqual(b.First(), b.Length()), !a.IsEqual(b.First(), b.Length())}, "StringUtils::IsLess/IsGreater");
            ctx.acc.count("states");
            // transitivity over all triples (i, j, k)
            if (a < b || a == b) {
                for (size_t k = 0; k < S.size(); k++) {
                    String<C> cc(S[k].data(), SizeT(S[k].size()));
                    ctx.acc.count("evals");
                    if ((b < cc || b == cc) && !(a < cc || a == cc)) {
                        ctx.fail(std::string(wn) + " " + sshow(S[i]) + " <= " + sshow(S[j]) + " <= " + sshow(S[k]), "<= is not transitive");
                    }
                    if (a < b && b < cc && !(a < cc)) {
                        ctx.fail(std::string(wn) + " " + sshow(S[i]) + " < " + sshow(S[j]) + " < " + sshow(S[k]), "< is not transitive");
                    }
                }
            }
        }
    }
}

// ---------------------------------------------------------------------------------------------------------
using V = Value<char>;
struct ValSet {
    std::vector<V>           vals;
    std::vector<std::string> names;
    std::vector<V>           targets; // pointees, kept alive
    void add(V &&v, const char *n) {
        vals.push_back(std::move(v));
        names.push_back(n);
    }
    ValSet() {
        targets.reserve(16);
        add(V(), "undefined");
        add(V(ValueType::True), "true");
        add(V(ValueType::False), "false");
        add(V(ValueType::Null), "null");
        add(V(SizeT64{0}), "u0");
        add(V(SizeT64{5}), "u5");
        add(V(SizeT64{18446744073709551615ULL}), "uMax");
        add(V(SizeT64I{-5}), "i-5");
        add(V(SizeT64I{5}), "i5");
        add(V(SizeT64I{-9223372036854775807LL - 1}), "iMin");
        add(V(-0.0), "d-0");
        add(V(0.0), "d0");
        add(V(2.5), "d2.5");
        add(V(-2.5), "d-2.5");
        add(V(1e300), "d1e300");
        add(V(String<char>("")), "s\"\"");
        add(V(String<char>("a")), "s\"a\"");
        add(V(String<char>("ab")), "s\"ab\"");
        add(V(String<char>("b")), "s\"b\"");
        add(V(String<char>("5")), "s\"5\"");
        {
            V a;
            a += SizeT64{1};
            add(V(a), "[1]");
            a += SizeT64{2};
            add(V(a), "[1,2]");
            V e(ValueType::Array);
            add(std::move(e), "[]");
            V b;
            b += SizeT64{9};
            add(std::move(b), "[9]");
        }
        {
            V o;
            o["a"] = SizeT64{1};
            add(V(o), "{a:1}");
            o["b"] = SizeT64{2};
            add(V(o), "{a:1,b:2}");
            V e(ValueType::Object);
            add(std::move(e), "{}");
            V o2;
            o2["z"] = SizeT64{0};
            add(std::move(o2), "{z:0}");
        }
        // pointer-to-value members for several kinds
        size_t base = vals.size();
        for (size_t i : {size_t(0), size_t(5), size_t(8), size_t(12), size_t(17), size_t(21), size_t(25), size_t(1)}) {
            targets.push_back(V(vals[i]));
        }
        size_t t = 0;
        for (size_t i : {size_t(0), size_t(5), size_t(8), size_t(12), size_t(17), size_t(21), size_t(25), size_t(1)}) {
            V p;
            p.SetPointerToValue(&targets[t++]);
            vals.push_back(std::move(p));
            names.push_back("*" + names[i]);
        }
        (void)base;
    }
};

static void value_pairs(int64_t chunk, int64_t nch, vx::Ctx &ctx, bool with_pointers) {
    static thread_local ValSet *vs = new ValSet();
    const size_t                n  = vs->vals.size();
    for (size_t i = (size_t)chunk; i < n; i += (size_t)nch) {
        if (!ctx.next()) {
            continue;
        }
        if (ctx.want_desc()) {
            ctx.describe("Value " + vs->names[i] + " against all values");
        }
        const V &a = vs->vals[i];
        if (!with_pointers && a.Type() == ValueType::ValuePtr) {
            continue;
        }
        for (size_t j = 0; j < n; j++) {
            const V &b = vs->vals[j];
            if (!with_pointers && b.Type() == ValueType::ValuePtr) {
                continue;
            }
            const bool lt = a < b, gt = a > b, eq = a == b, le = a <= b, ge = a >= b;
            ctx.acc.count("evals");
            ctx.acc.count("states");
            const std::string key = "Value " + vs->names[i] + " vs " + vs->names[j];
            char              d[160];
            if ((int)lt + (int)gt + (int)eq != 1) {
                snprintf(d, sizeof d, "not exactly one of <, ==, > holds: < %d == %d > %d", lt, eq, gt);
                ctx.fail(key, d);
                continue;
            }
            // one relation: a < b exactly when b > a, and == is symmetric (whichever operand is the pointer-to-value)
            if (lt != (b > a) || gt != (b < a) || eq != (b == a)) {
                snprintf(d, sizeof d, "the operators disagree when the operands are swapped: a<b %d b>a %d | a>b %d b<a %d | a==b %d b==a %d", lt, (int)(b > a), gt,
                         (int)(b < a), eq, (int)(b == a));
                ctx.fail(key, d);
                continue;
            }
            if (le != (lt || eq) || ge != (gt || eq)) {
                snprintf(d, sizeof d, "<=/>= are not the unions: < %d == %d > %d <= %d >= %d", lt, eq, gt, le, ge);
                ctx.fail(key, d);
                continue;
            }
            // numbers of one kind compare by magnitude
            if (a.Type() == b.Type() && (a.Type() == ValueType::UIntLong || a.Type() == ValueType::IntLong || a.Type() == ValueType::Double)) {
                bool rl = a.Type() == ValueType::UIntLong ? a.GetUInt64() < b.GetUInt64()
                                                          : (a.Type() == ValueType::IntLong ? a.GetInt64() < b.GetInt64() : a.GetDouble() < b.GetDouble());
                if (lt != rl) {
                    ctx.fail(key, "numbers of one kind do not compare by magnitude");
                }
            }
            for (size_t k = 0; k < n; k++) {
                const V &c = vs->vals[k];
                if (!with_pointers && c.Type() == ValueType::ValuePtr) {
                    continue;
                }
                ctx.acc.count("evals");
                if (le && (b <= c) && !(a <= c)) {
                    ctx.fail("Value " + vs->names[i] + " <= " + vs->names[j] + " <= " + vs->names[k], "<= is not transitive");
                }
                if (lt && (b < c) && !(a < c)) {
                    ctx.fail("Value " + vs->names[i] + " < " + vs->names[j] + " < " + vs->names[k], "< is not transitive");
                }
                if (eq && (b == c) && !(a == c)) {
                    ctx.fail("Value " + vs->names[i] + " == " + vs->names[j] + " == " + vs->names[k], "== is not transitive");
                }
            }
        }
    }
}

// ---------------------------------------------------------------------------------------------------------
// sorts: every array of length <= 5 over 4 values
static void sort_cases(int64_t chunk, int64_t nch, vx::Ctx &ctx) {
    const char *pool[4] = {"b", "ab", "a", "abc"}; // includes a proper-prefix chain a < ab < abc
    const int   ipool[4] = {3, 1, 2, 1};           // with a duplicate
    int64_t     idx = 0;
    for (int len = 0; len <= 5; len++) {
        int total = 1;
        for (int i = 0; i < len; i++) {
            total *= 4;
        }
        for (int code = 0; code < total; code++) {
            if ((idx++ % nch) != chunk) {
                continue;
            }
            if (!ctx.next()) {
                continue;
            }
            std::vector<int> pick;
            int              c = code;
            for (int i = 0; i < len; i++) {
                pick.push_back(c % 4);
                c /= 4;
            }
            std::string desc = "sort [";
            for (int p : pick) {
                desc += std::string(pool[p]) + "/" + std::to_string(ipool[p]) + " ";
            }
            desc += "]";
            if (ctx.want_desc()) {
                ctx.describe(desc);
            }
            ctx.acc.count("states");
            for (int asc = 0; asc < 2; asc++) {
                // Array<int>
                {
                    Array<int>       a;
                    std::vector<int> m;
                    for (int p : pick) {
                        a += ipool[p];
                        m.push_back(ipool[p]);
                    }
                    a.Sort(asc == 1);
                    std::sort(m.begin(), m.end());
                    if (!asc) {
                        std::reverse(m.begin(), m.end());
                    }
                    ctx.acc.count("evals");
                    bool ok = a.Size() == m.size();
                    for (size_t i = 0; ok && i < m.size(); i++) {
                        ok = a.First()[i] == m[i];
                    }
                    if (!ok) {
                        ctx.fail("Array<int> " + desc + (asc ? " ascending" : " descending"), "result is not the ordered permutation");
                    }
                }
                // Array<String>, Value array of strings, HArray keys, Value object keys
                std::vector<std::string> m;
                for (int p : pick) {
                    m.push_back(pool[p]);
                }
                auto ordered = [&](const std::vector<std::string> &got, const std::vector<std::string> &in, const char *what) {
                    ctx.acc.count("evals");
                    std::vector<std::string> x = got, y = in;
                    std::sort(x.begin(), x.end());
                    std::sort(y.begin(), y.end());
                    if (x != y) {
                        ctx.fail(std::string(what) + " " + desc + (asc ? " ascending" : " descending"), "result is not a permutation of the input");
                        return;
                    }
                    for (size_t i = 1; i < got.size(); i++) {
                        String<char> l(got[i - 1].c_str()), r(got[i].c_str());
                        if (asc ? (l > r) : (l < r)) {
                            ctx.fail(std::string(what) + " " + desc + (asc ? " ascending" : " descending"),
                                     "adjacent items '" + got[i - 1] + "', '" + got[i] + "' are out of order");
                            return;
                        }
                    }
                    // and the order is the lexicographic one
                    std::vector<std::string> z = in;
                    std::sort(z.begin(), z.end());
                    if (!asc) {
                        std::reverse(z.begin(), z.end());
                    }
                    if (z != got) {
                        ctx.fail(std::string(what) + " " + desc + (asc ? " ascending" : " descending"), "order differs from the lexicographic order");
                    }
                };
                {
                    Array<String<char>> a;
                    for (auto &s : m) {
                        a += String<char>(s.c_str());
                    }
                    a.Sort(asc == 1);
                    std::vector<std::string> got;
                    for (SizeT i = 0; i < a.Size(); i++) {
                        got.push_back(a.First()[i].First() ? a.First()[i].First() : "");
                    }
                    ordered(got, m, "Array<String>");
                }
                {
                    V v;
                    for (auto &s : m) {
                        v += String<char>(s.c_str());
                    }
                    v.Sort(asc == 1);
                    std::vector<std::string> got;
                    for (SizeT i = 0; i < v.Size(); i++) {
                        const V *e = v.GetValue(i);
                        got.push_back(e && e->StringStorage() ? e->StringStorage() : "");
                    }
                    ordered(got, m, "Value array");
                    // the same through the template renderer
                    if (len > 0) {
                        StringStream<char> ss;
                        V                  root;
                        for (auto &s : m) {
                            root += String<char>(s.c_str());
                        }
                        const char *tp = asc ? "<loop value=\"v\" sort=\"ascend\">{var:v},</loop>" : "<loop value=\"v\" sort=\"descend\">{var:v},</loop>";
                        Template::Render(tp, SizeT(strlen(tp)), root, ss);
                        std::vector<std::string> g2;
                        std::string              cur;
                        for (SizeT i = 0; i < ss.Length(); i++) {
                            if (ss.First()[i] == ',') {
                                g2.push_back(cur);
                                cur.clear();
                            } else {
                                cur += ss.First()[i];
                            }
                        }
                        ordered(g2, m, "<loop sort>");
                        // the caller's value is not reordered by a loop
                        for (SizeT i = 0; i < root.Size(); i++) {
                            if (m[i] != root.GetValue(i)->StringStorage()) {
                                ctx.fail("<loop sort> " + desc, "the caller's array was reordered");
                                break;
                            }
                        }
                        // the same set reached through a pointer-to-value member, and a pointer as the root
                        {
                            V holder;
                            holder["p"].SetPointerToValue(&root);
                            const char *tq = asc ? "<loop set=\"p\" value=\"v\" sort=\"ascend\">{var:v},</loop>" : "<loop set=\"p\" value=\"v\" sort=\"descend\">{var:v},</loop>";
                            for (int via_root = 0; via_root < 2; via_root++) {
                                V proot;
                                proot.SetPointerToValue(&root);
                                StringStream<char> sp;
                                if (via_root) {
                                    Template::Render(tp, SizeT(strlen(tp)), proot, sp);
                                } else {
                                    Template::Render(tq, SizeT(strlen(tq)), holder, sp);
                                }
                                std::vector<std::string> g3;
                                cur.clear();
                                for (SizeT i = 0; i < sp.Length(); i++) {
                                    if (sp.First()[i] == ',') {
                                        g3.push_back(cur);
                                        cur.clear();
                                    } else {
                                        cur += sp.First()[i];
                                    }
                                }
                                ordered(g3, m, via_root ? "<loop sort> over a pointer-to-value root" : "<loop sort> over a set behind a pointer-to-value");
                            }
                            for (SizeT i = 0; i < root.Size(); i++) {
                                if (m[i] != root.GetValue(i)->StringStorage()) {
                                    ctx.fail("<loop sort> through a pointer " + desc, "the caller's array was reordered");
                                    break;
                                }
                            }
                        }
                    }
                }
                // keyed: distinct keys only; with and without a removed member; lookups afterwards
                for (int removed = 0; removed < 2; removed++) {
                    HArray<String<char>, int> h;
                    V                         o;
                    std::vector<std::string>  keys;
                    for (auto &s : m) {
                        if (std::find(keys.begin(), keys.end(), s) == keys.end()) {
                            keys.push_back(s);
                        }
                        h[s.c_str()] = (int)s.size();
                        o[s.c_str()] = SizeT64(s.size());
                    }
                    if (removed) {
                        if (keys.empty()) {
                            continue;
                        }
                        h.Remove(keys[0].c_str());
                        o.Remove(keys[0].c_str());
                        keys.erase(keys.begin());
                    }
                    h.Sort(asc == 1);
                    o.Sort(asc == 1);
                    std::vector<std::string> got, got2;
                    for (SizeT i = 0; i < h.Size(); i++) {
                        if (h.GetKey(i)) {
                            got.push_back(h.GetKey(i)->First() ? h.GetKey(i)->First() : "");
                        }
                    }
                    for (SizeT i = 0; i < o.Size(); i++) {
                        if (o.GetKey(i) && o.GetValue(i)) {
                            got2.push_back(o.GetKey(i)->First() ? o.GetKey(i)->First() : "");
                        }
                    }
                    ordered(got, keys, removed ? "HArray keys (one removed)" : "HArray keys");
                    ordered(got2, keys, removed ? "Value object keys (one removed)" : "Value object keys");
                    for (auto &k : keys) {
                        const int *hv = h.GetValue(k.c_str(), SizeT(k.size()));
                        const V   *ov = o.GetValue(k.c_str(), SizeT(k.size()));
                        if (hv == nullptr || *hv != (int)k.size() || ov == nullptr || ov->GetUInt64() != k.size()) {
                            ctx.fail("lookup after sort " + desc + " key " + k, "key is not found / maps to another value after Sort");
                        }
                    }
                    if (removed && (h.GetValue(m[0].c_str(), SizeT(m[0].size())) != nullptr || o.GetValue(m[0].c_str(), SizeT(m[0].size())) != nullptr)) {
                        ctx.fail("lookup after sort " + desc, "removed key reappears after Sort");
                    }
                }
            }
            if ((idx % 257) == 3) {
                ctx.acc.sample(desc);
            }
        }
    }
}

int main(int argc, char **argv) {
    return vx::standard_main(argc, argv, [](const vx::Args &) {
        vx::Plan plan;
        plan.engine = "langx";
        plan.rule = "all ordered pairs and triples of the 341 strings of length <=4 over {a,b,0x01,0xE9 (8-bit) / 0x161 (16-bit) / 0x10061 (32-bit units)} through String, StringView, the const C* "
                    "overloads and StringUtils::IsLess/IsGreater in char, char16_t, char32_t (reference: lexicographic by unit, prefix first); "
                    "all pairs and triples of 36 values of every kind incl. pointer-to-value (trichotomy, <=/>= unions, transitivity, magnitude); "
                    "every array of length <=5 over 4 values (duplicates, prefix chain) through Array<int>, Array<String>, Value array, "
                    "<loop sort>, HArray keys and Value object keys with and without a removed member, both directions";
        plan.bounds = "strings<=4 over 3 units; 36 values; arrays<=5 over 4 values";
        {
            vx::Stage st;
            st.name   = "string-pairs-triples";
            st.chunks = 121 * 3;
            st.fn     = [](int64_t chunk, vx::Ctx &ctx) {
                if (chunk < 121) {
                    string_pairs<char>(chunk, 121, ctx, "char");
                } else if (chunk < 242) {
                    string_pairs<char16_t>(chunk - 121, 121, ctx, "char16_t");
                } else {
                    string_pairs<char32_t>(chunk - 242, 121, ctx, "char32_t");
                }
            };
            plan.stages.push_back(st);
        }
        {
            vx::Stage st;
            st.name   = "value-pairs-triples";
            st.chunks = 36;
            st.fn     = [](int64_t chunk, vx::Ctx &ctx) { value_pairs(chunk, 36, ctx, true); };
            plan.stages.push_back(st);
        }
        {
            vx::Stage st;
            st.name   = "sorts";
            st.chunks = 64;
            st.fn     = [](int64_t chunk, vx::Ctx &ctx) { sort_cases(chunk, 64, ctx); };
            plan.stages.push_back(st);
        }
        plan.transitions_counter = "evals";
        plan.finish = [](vx::Part &p) { p.distinct_extra = p.acc.counters["states"]; };
        plan.assumptions = {"units of the string alphabet are below 0x80, so signedness of char does not matter"};
        return plan;
    });
}
