// C03 - {var:} output is HTML-safe for every string; {raw:} is verbatim.
// Bounded-exhaustive: every string of <= N units over an 18-unit entity alphabet, plus entity-prefix x tail products,
// through the escaper itself and through every tag position that prints text.
#include "tmpl_common.hpp"

using namespace langx;

static const char *ENT[5]  = {"&amp;", "&lt;", "&gt;", "&quot;", "&apos;"};
static const char  ENTC[5] = {'&', '<', '>', '"', '\''};

static std::u32string decode(const std::u32string &s) {
    std::u32string o;
    for (size_t i = 0; i < s.size();) {
        bool hit = false;
        if (s[i] == '&') {
            for (int e = 0; e < 5 && !hit; e++) {
                size_t n = strlen(ENT[e]);
                if (s.size() - i >= n) {
                    bool eq = true;
                    for (size_t k = 0; k < n; k++) {
                        eq = eq && s[i + k] == (char32_t)ENT[e][k];
                    }
                    if (eq) {
                        o.push_back((char32_t)ENTC[e]);
                        i += n;
                        hit = true;
                    }
                }
            }
        }
        if (!hit) {
            o.push_back(s[i++]);
        }
    }
    return o;
}
// "" when `out` is a safe rendition of `in`, else what is wrong
static std::string safe(const std::u32string &in, const std::u32string &out) {
    for (size_t i = 0; i < out.size(); i++) {
        char32_t c = out[i];
        if (c == '<' || c == '>' || c == '"' || c == '\'') {
            return "output contains a raw special character";
        }
        if (c == '&') {
            bool ent = false;
            for (int e = 0; e < 5; e++) {
                size_t n = strlen(ENT[e]);
                if (out.size() - i >= n) {
                    bool eq = true;
                    for (size_t k = 0; k < n; k++) {
                        eq = eq && out[i + k] == (char32_t)ENT[e][k];
                    }
                    ent = ent || eq;
                }
            }
            if (!ent) {
                return "output contains '&' that does not start one of the five entities";
            }
        }
    }
    if (decode(out) != decode(in)) {
        return "decoding the output does not give the decoded input";
    }
    return "";
}

template <typename C>
static std::u32string widen(const C *p, size_t n) {
    std::u32string s;
    for (size_t i = 0; i < n; i++) {
        s.push_back((char32_t)(typename std::make_unsigned<C>::type)p[i]);
    }
    return s;
}

#ifndef QENTEM_AUTO_ESCAPE_HTML
#define C03_ESCAPE_ON 1
#else
#if QENTEM_AUTO_ESCAPE_HTML == 1
#define C03_ESCAPE_ON 1
#else
#define C03_ESCAPE_ON 0
#endif
#endif

template <typename C>
struct Rig {
    Exact<C> ex;
};

template <typename C>
static void direct(const Text &t, Rig<C> &rig, vx::Ctx &ctx) {
    const C        *p = rig.ex.put(t);
    StringStream<C> ss;
    ss += C('#');
    StringUtils::EscapeHTMLSpecialChars(ss, p, SizeT(t.size()));
    ctx.acc.count("evals");
    std::u32string out = widen(ss.First(), ss.Length());
    std::string    key = std::string(wname<C>()) + " escape " + show(t);
    if (out.empty() || out[0] != '#') {
        ctx.fail(key, "earlier stream content disturbed");
        return;
    }
    out.erase(0, 1);
    std::u32string in(t.begin(), t.end());
    if (!C03_ESCAPE_ON) {
        if (out != in) {
            ctx.fail(key, "auto-escape is off but the text was changed");
        }
        return;
    }
    std::string e = safe(in, out);
    if (!e.empty()) {
        ctx.fail(key, e + ": '" + show(Text(out.begin(), out.end())) + "'");
        return;
    }
    // idempotence
    std::basic_string<C> o2(ss.First() + 1, ss.Length() - 1);
    StringStream<C>      s3;
    StringUtils::EscapeHTMLSpecialChars(s3, o2.data(), SizeT(o2.size()));
    if (widen(s3.First(), s3.Length()) != out) {
        ctx.fail(key, "escaping the escaped text changes it");
    }
    ctx.acc.outcome(vx::mix(out.size() * 131 + in.size()));
}

// every tag position that prints the string
template <typename C>
static void positions(const Text &t, vx::Ctx &ctx) {
    using S = std::basic_string<C>;
    S              s;
    for (char32_t c : t) {
        s.push_back((C)c);
    }
    std::u32string in(t.begin(), t.end());
    auto           lit = [](const char *a) {
        S r;
        for (; *a; a++) {
            r.push_back((C)(unsigned char)*a);
        }
        return r;
    };
    Value<C> root;
    const S  kk = lit("k"), kp = lit("p"), kq = lit("q"), ko = lit("o");
    root[kk.c_str()] = Value<C>(s.data(), SizeT(s.size()));
    root[kp.c_str()] = Value<C>(s.data(), SizeT(s.size()));
    root[kq.c_str()] = lit("{0}|{1}").c_str();
    {
        Value<C> inner;
        inner += SizeT64{1};
        root[ko.c_str()].Get(s.data(), SizeT(s.size())) = inner; // object whose KEY is the string
    }
    // the same string behind a pointer-to-value, as an array item, as a nested member, as a grouping value
    Value<C> holder(s.data(), SizeT(s.size()));
    const S  kr = lit("r"), kl = lit("l"), km = lit("m"), kn = lit("n"), kg = lit("g"), ky = lit("y"), kw = lit("w");
    root[kr.c_str()].SetPointerToValue(&holder);
    root[kl.c_str()].AddPointerToValue(&holder);
    root[km.c_str()] += Value<C>(s.data(), SizeT(s.size()));
    root[kn.c_str()][kk.c_str()] = Value<C>(s.data(), SizeT(s.size()));
    {
        Value<C> item;
        item[ky.c_str()] = Value<C>(s.data(), SizeT(s.size()));
        item[kw.c_str()] = SizeT64{1};
        root[kg.c_str()] += item;
    }
    Value<C> proot;
    proot.SetPointerToValue(&root);
    struct Case {
        const char    *name;
        S              tpl;
        std::u32string escaped_in; // text whose escaped form is expected ...
        std::u32string raw_suffix; // ... followed by this verbatim text
        bool           whole_raw;  // the whole expected output is verbatim
        bool           ptr_root = false;
    };
    std::vector<Case> cases;
    std::u32string    none;
    cases.push_back({"{var:k}", lit("[{var:k}]"), in, none, false});
    cases.push_back({"{raw:k}", lit("[{raw:k}]"), none, in, true});
    if (!t.empty()) { // an empty key prints nothing by design: the tag is echoed instead
        cases.push_back({"loop key", lit("[<loop set=\"o\" value=\"v\">{var:v}</loop>]"), in, none, false});
    }
    cases.push_back({"svar phrase", lit("[{svar:p,{var:k}}]"), in, none, false});
    {
        std::u32string bar = in;
        cases.push_back({"svar sub-tags", lit("[{svar:q,{var:k},{raw:k}}]"), in, std::u32string(U"|") + in, false});
    }
    cases.push_back({"inline-if true {var:}", lit("[{if case=\"1\" true=\"{var:k}\" false=\"x\"}]"), in, none, false});
    cases.push_back({"inline-if false {raw:}", lit("[{if case=\"0\" true=\"x\" false=\"{raw:k}\"}]"), none, in, true});
    // the echoed source of an unresolvable tag whose NAME is the string (names cannot hold '}' - not in the alphabet)
    if (t.size() < 200) {
        S              nm  = lit("[{var:") + s + lit("}]");
        std::u32string src = std::u32string(U"{var:") + in + U"}";
        bool           has_nul_or_brace = false;
        for (char32_t c : t) {
            has_nul_or_brace = has_nul_or_brace || c == '[' || c == ']';
        }
        const bool is_member = (t == T("k") || t == T("p") || t == T("q") || t == T("o") || t == T(s.empty() ? "" : "\x01"));
        if (!has_nul_or_brace && !t.empty() && !is_member && root.GetValue(s.data(), SizeT(s.size())) == nullptr) {
            cases.push_back({"unresolved {var:NAME} echo", nm, src, none, false});
        }
    }
    const size_t ptr_root_from = cases.size();
    cases.push_back({"{var:r} pointer member", lit("[{var:r}]"), in, none, false});
    cases.push_back({"{raw:r} pointer member", lit("[{raw:r}]"), none, in, true});
    cases.push_back({"loop over [pointer]", lit("[<loop set=\"l\" value=\"v\">{var:v}</loop>]"), in, none, false});
    cases.push_back({"loop over [string]", lit("[<loop set=\"m\" value=\"v\">{var:v}</loop>]"), in, none, false});
    cases.push_back({"sorted loop over [string]", lit("[<loop set=\"m\" value=\"v\" sort=\"descend\">{var:v}</loop>]"), in, none, false});
    cases.push_back({"sorted loop over [pointer] {raw:}", lit("[<loop set=\"l\" value=\"v\" sort=\"ascend\">{raw:v}</loop>]"), none, in, true});
    cases.push_back({"{var:m[0]}", lit("[{var:m[0]}]"), in, none, false});
    cases.push_back({"{var:n[k]}", lit("[{var:n[k]}]"), in, none, false});
    cases.push_back({"{var:l[0]} pointer item", lit("[{var:l[0]}]"), in, none, false});
    cases.push_back({"svar sub-tag through pointer", lit("[{svar:q,{var:r},{raw:r}}]"), in, std::u32string(U"|") + in, false});
    cases.push_back({"inline-if {var:r}", lit("[{if case=\"0\" true=\"x\" false=\"{var:r}\"}]"), in, none, false});
    if (!t.empty()) {
        cases.push_back({"group name", lit("[<loop set=\"g\" value=\"v\" group=\"y\">{var:v}</loop>]"), in, none, false});
    }
    // everything once more through a root that is itself a pointer to the value
    const size_t ncases = cases.size();
    for (auto &c : cases) {
        c.ptr_root = false;
    }
    for (size_t i = 0; i < ncases; i++) {
        if (i < 2 || i >= ptr_root_from) {
            Case c2    = cases[i];
            c2.ptr_root = true;
            cases.push_back(c2);
        }
    }
    for (auto &c : cases) {
        StringStream<C> ss;
        ss += C('#');
        Template::Render(c.tpl.data(), SizeT(c.tpl.size()), (c.ptr_root ? proot : root), ss);
        ctx.acc.count("evals");
        std::u32string out = widen(ss.First(), ss.Length());
        std::string    key = std::string(wname<C>()) + " " + c.name + (c.ptr_root ? " (pointer root)" : "") + " with " + show(t);
        if (out.size() < 3 || out[0] != '#' || out[1] != '[' || out.back() != ']') {
            ctx.fail(key, "frame '#[' ... ']' around the tag is damaged: '" + show(Text(out.begin(), out.end())) + "'");
            continue;
        }
        std::u32string body = out.substr(2, out.size() - 3);
        if (c.whole_raw || !C03_ESCAPE_ON) {
            std::u32string want = c.escaped_in + c.raw_suffix;
            if (c.whole_raw) {
                want = c.raw_suffix;
            }
            if (body != want) {
                ctx.fail(key, "expected the string verbatim, got '" + show(Text(body.begin(), body.end())) + "'");
            }
            continue;
        }
        // body = escape(escaped_in) + raw_suffix
        if (body.size() < c.raw_suffix.size() || body.substr(body.size() - c.raw_suffix.size()) != c.raw_suffix) {
            ctx.fail(key, "verbatim part missing: '" + show(Text(body.begin(), body.end())) + "'");
            continue;
        }
        std::u32string esc = body.substr(0, body.size() - c.raw_suffix.size());
        std::string    e   = safe(c.escaped_in, esc);
        if (!e.empty()) {
            ctx.fail(key, e + ": '" + show(Text(esc.begin(), esc.end())) + "'");
        }
    }
}

static Alphabet unit_alphabet() {
    Alphabet a;
    for (const char *p = "&<>\"';amplt"; *p; p++) {
        a.tokens.push_back(Text(1, (unsigned char)*p));
    }
    for (const char *p = "gquosx"; *p; p++) {
        a.tokens.push_back(Text(1, (unsigned char)*p));
    }
    a.tokens.push_back(Text(1, 0));
    return a;
}

int main(int argc, char **argv) {
    return vx::standard_main(argc, argv, [](const vx::Args &a) {
        vx::Plan  plan;
        const int n  = atoi(a.get("units", "5").c_str());
        const int np = atoi(a.get("posunits", "3").c_str());
        plan.engine = "langx";
        static Alphabet au = unit_alphabet();
        plan.rule = "every string of <=" + std::to_string(n) + " units over {& < > \" ' ; a m p l t g q u o s x NUL} through "
                    "StringUtils::EscapeHTMLSpecialChars from an exact-size buffer (char, char16_t, char32_t); every proper prefix and "
                    "one-unit corruption of the five entities x every tail of <=3 units x distance 0..6 from the end; every string of <=" +
                    std::to_string(np) + " units and all entity products through 8 printing positions of the renderer ({var:}, {raw:}, loop key, "
                    "svar phrase, svar sub-tags, inline-if true/false sub-tags, echoed source of an unresolved tag); auto-escape " +
                    std::string(C03_ESCAPE_ON ? "ON" : "OFF") + "; oracle: no raw < > \" ', & only as an entity start, decode(out)==decode(in), "
                    "idempotent, {raw:} verbatim, stream prefix intact";
        plan.bounds = "units<=" + std::to_string(n) + " posunits<=" + std::to_string(np) + (C03_ESCAPE_ON ? " escape=on" : " escape=off");
        {
            vx::Stage st;
            st.name   = "escaper";
            st.chunks = sigma_chunks(au, n, 2);
            st.fn     = [n](int64_t chunk, vx::Ctx &ctx) {
                static Rig<char>     r8;
                static Rig<char16_t> r16;
                static Rig<char32_t> r32;
                sigma_walk(au, n, 2, chunk, ctx, [&](const Text &t, int, bool) {
                    if (!ctx.next()) {
                        return;
                    }
                    if (ctx.want_desc()) {
                        ctx.describe(show(t));
                    }
                    direct<char>(t, r8, ctx);
                    if ((ctx.idx & 3) == 0) {
                        direct<char16_t>(t, r16, ctx);
                        direct<char32_t>(t, r32, ctx);
                    }
                    if ((ctx.idx % 400009) == 5) {
                        ctx.acc.sample(show(t));
                    }
                });
            };
            plan.stages.push_back(st);
        }
        {
            // entity look-alikes near the end of the buffer and inside longer text
            static std::vector<Text> products;
            products.clear();
            std::vector<Text> heads;
            for (int e = 0; e < 5; e++) {
                Text full = T(ENT[e]);
                for (size_t k = 1; k <= full.size(); k++) {
                    heads.push_back(full.substr(0, k));
                }
                for (size_t k = 1; k < full.size(); k++) {
                    for (char32_t r : {U'x', U'&', U';'}) {
                        Text c = full;
                        c[k]   = r;
                        heads.push_back(c);
                    }
                }
            }
            std::vector<Text> tails = {T("")};
            for (const char *p = "&;a<"; *p; p++) {
                tails.push_back(Text(1, (unsigned char)*p));
            }
            for (const char *x : {"&&", "&a", ";;", "mp;", "amp", "&lt", "lt;", "x&a"}) {
                tails.push_back(T(x));
            }
            for (auto &h : heads) {
                for (auto &tl : tails) {
                    for (const char *pre : {"", "x", "&", "&am", "&amp;"}) {
                        products.push_back(T(pre) + h + tl);
                    }
                }
            }
            vx::Stage st;
            st.name   = "entity-products";
            st.chunks = 32;
            st.fn     = [](int64_t chunk, vx::Ctx &ctx) {
                static Rig<char>     r8;
                static Rig<char16_t> r16;
                static Rig<char32_t> r32;
                for (size_t i = (size_t)chunk; i < products.size(); i += 32) {
                    if (!ctx.next()) {
                        continue;
                    }
                    const Text &t = products[i];
                    if (ctx.want_desc()) {
                        ctx.describe(show(t));
                    }
                    ctx.acc.count("states");
                    direct<char>(t, r8, ctx);
                    direct<char16_t>(t, r16, ctx);
                    direct<char32_t>(t, r32, ctx);
                    positions<char>(t, ctx);
                    positions<char16_t>(t, ctx);
                }
            };
            plan.stages.push_back(st);
        }
        {
            vx::Stage st;
            st.name   = "positions";
            st.chunks = sigma_chunks(au, np, 1);
            st.fn     = [np](int64_t chunk, vx::Ctx &ctx) {
                sigma_walk(au, np, 1, chunk, ctx, [&](const Text &t, int, bool) {
                    if (!ctx.next()) {
                        return;
                    }
                    if (ctx.want_desc()) {
                        ctx.describe("positions with " + show(t));
                    }
                    positions<char>(t, ctx);
                    if ((ctx.idx & 7) == 0) {
                        positions<char32_t>(t, ctx);
                    }
                });
            };
            plan.stages.push_back(st);
        }
        {
            // 16- and 32-bit units above 0xFF whose low byte (low half) is one of the five special characters: the escaper and
            // every printing position must treat them as ordinary text
            static std::vector<Text> wide16, wide32;
            wide16.clear();
            wide32.clear();
            auto build = [](std::vector<Text> &out, const std::vector<char32_t> &units) {
                out.push_back(Text());
                size_t start = 0;
                for (int l = 1; l <= 3; l++) {
                    const size_t end = out.size();
                    for (size_t i = start; i < end; i++) {
                        for (char32_t u : units) {
                            out.push_back(out[i] + Text(1, u));
                        }
                    }
                    start = end;
                }
            };
            build(wide16, {0x126, 0x13C, 0x13E, 0x122, 0x127, U'&', U'a', U';', 0x43C, 0x4E26});
            build(wide32, {0x126, 0x1003C, 0x1F33E, 0x10022, 0x100027, U'&', U'a', U';', 0x10026});
            vx::Stage st;
            st.name   = "wide-units";
            st.chunks = 16;
            st.fn     = [](int64_t chunk, vx::Ctx &ctx) {
                static Rig<char16_t> r16;
                static Rig<char32_t> r32;
                for (size_t i = (size_t)chunk; i < wide16.size() + wide32.size(); i += 16) {
                    if (!ctx.next()) {
                        continue;
                    }
                    const bool  is16 = i < wide16.size();
                    const Text &t    = is16 ? wide16[i] : wide32[i - wide16.size()];
                    if (ctx.want_desc()) {
                        ctx.describe(std::string(is16 ? "char16_t " : "char32_t ") + show(t));
                    }
                    ctx.acc.count("states");
                    if (is16) {
                        direct<char16_t>(t, r16, ctx);
                        positions<char16_t>(t, ctx);
                    } else {
                        direct<char32_t>(t, r32, ctx);
                        positions<char32_t>(t, ctx);
                        positions<wchar_t>(t, ctx);
                    }
                }
            };
            plan.stages.push_back(st);
        }
        plan.assumptions = {"the echoed source of an unresolved tag is checked for names without '[' and ']' (those change how the name is resolved)"};
        return plan;
    });
}
