// C10 - number -> text equals the reference formatting (printf) for every value and precision.  Engine E3.
#include "vx_ledger.hpp"
#include "vx_main.hpp"
#include "StringStream.hpp"
#include "Digit.hpp"
#include <cmath>
#include <cinttypes>

using namespace Qentem;

#include "mant_patterns.hpp"


static const char *FMT_NAME[3] = {"Default", "Fixed", "SemiFixed"};

static void reference(char *out, size_t cap, double d, unsigned prec, int fmt) {
    if (std::isnan(d)) {
        snprintf(out, cap, "nan"); // printf would print the sign bit of a NaN; the property says "nan"
        return;
    }
    if (fmt == 0) {
        snprintf(out, cap, "%.*g", (int)prec, d);
    } else {
        snprintf(out, cap, "%.*f", (int)prec, d);
        if (fmt == 2 && strchr(out, '.') != nullptr && std::isfinite(d)) {
            size_t n = strlen(out);
            while (n > 0 && out[n - 1] == '0') {
                out[--n] = 0;
            }
            if (n > 0 && out[n - 1] == '.') {
                out[--n] = 0;
            }
        }
    }
}

template <typename C>
static std::string narrow(const C *p, size_t n) {
    std::string s;
    for (size_t i = 0; i < n; i++) {
        s += (p[i] < 128 && p[i] >= 0) ? char(p[i]) : '?';
    }
    return s;
}

// formats `d` (double or float) and compares with the reference; `pre` sentinel units must survive in the stream
template <typename C, typename F>
static bool real_case(F d, unsigned prec, int fmt, unsigned pre, vx::Ctx &ctx, std::string *got_out = nullptr) {
    static thread_local char ref[1600];
    reference(ref, sizeof ref, (double)d, prec, fmt);
    StringStream<C> ss;
    for (unsigned i = 0; i < pre; i++) {
        ss += C('#' + i);
    }
    Digit::RealFormatInfo fi{SizeT32(prec), fmt == 0 ? Digit::RealFormatType::Default
                                                    : (fmt == 1 ? Digit::RealFormatType::Fixed : Digit::RealFormatType::SemiFixed)};
    Digit::NumberToString(ss, d, fi);
    ctx.acc.count("evals");
    bool ok = ss.Length() >= pre;
    for (unsigned i = 0; ok && i < pre; i++) {
        ok = ss.First()[i] == C('#' + i);
    }
    size_t rl = strlen(ref);
    ok        = ok && (ss.Length() - pre == rl);
    for (size_t i = 0; ok && i < rl; i++) {
        ok = (ss.First()[pre + i] == C(ref[i]));
    }
    if (!ok) {
        std::string got = narrow(ss.First(), ss.Length());
        if (got_out) {
            *got_out = got;
        }
        char key[160], det[400];
        if (sizeof(F) == 8) {
            uint64_t b;
            double   dd = (double)d;
            memcpy(&b, &dd, 8);
            snprintf(key, sizeof key, "double bits=%016" PRIx64 " precision=%u format=%s%s", b, prec, FMT_NAME[fmt],
                     sizeof(C) == 1 ? "" : (sizeof(C) == 2 ? " char16_t" : " char32_t"));
        } else {
            uint32_t b;
            float    ff = (float)d;
            memcpy(&b, &ff, 4);
            snprintf(key, sizeof key, "float bits=%08x precision=%u format=%s", b, prec, FMT_NAME[fmt]);
        }
        const double ad = std::fabs((double)d);
        const char  *pc = prec == 0 ? "zero" : (prec <= 6 ? "small" : (prec <= 17 ? "medium" : "large"));
        const char  *mc = ad == 0 ? "zero" : (!std::isfinite(ad) ? "nonfinite" : (ad < 2.3e-308 ? "subnormal" : (ad < 1e-5 ? "tiny" : (ad < 1 ? "fraction" : (ad < 1e15 ? "middle" : (ad < 1e22 ? "big" : "huge"))))));
        snprintf(det, sizeof det, "[%s prec:%s mag:%s%s] value %.17g: expected '%s%.*s' got '%.*s'", FMT_NAME[fmt], pc, mc, sizeof(F) == 4 ? " float" : "", (double)d, pre ? "<sentinels>" : "", 120, ref, 140, got.c_str());
        ctx.fail(key, det);
        std::string cls(det, 0, strchr(det, ']') - det + 1);
        for (auto &ch : cls) {
            if (ch == ' ') {
                ch = '_';
            }
        }
        ctx.acc.count(("v" + cls).c_str());
    }
    return ok;
}

template <typename I>
static void int_case(I v, vx::Ctx &ctx) {
    char ref[32];
    if (IsUnsigned<I>()) {
        snprintf(ref, sizeof ref, "%llu", (unsigned long long)v);
    } else {
        snprintf(ref, sizeof ref, "%lld", (long long)v);
    }
    StringStream<char> ss;
    ss += '#';
    Digit::NumberToString(ss, v);
    ctx.acc.count("evals");
    size_t rl = strlen(ref);
    bool   ok = ss.Length() == rl + 1 && ss.First()[0] == '#' && memcmp(ss.First() + 1, ref, rl) == 0;
    if (!ok) {
        ctx.fail(std::string("integer ") + ref + " width=" + std::to_string(sizeof(I) * 8) + (IsUnsigned<I>() ? "u" : "s"),
                 "got '" + narrow(ss.First(), ss.Length()) + "'");
    }
}

int main(int argc, char **argv) {
    return vx::standard_main(argc, argv, [](const vx::Args &a) {
        vx::Plan   plan;
        const bool th   = a.thorough();
        const int  npat = atoi(a.get("patterns", th ? "64" : "16").c_str());
        const int  kmax = atoi(a.get("kmax", th ? "2000000" : "200000").c_str());
        const int  fbits = atoi(a.get("floatbits", th ? "32" : "20").c_str()); // floats: top fbits bits enumerated
        const int  i32bits = atoi(a.get("i32bits", th ? "32" : "24").c_str());
        static std::vector<unsigned> precs;
        precs.clear();
        if (th) {
            for (unsigned p = 0; p <= 40; p++) {
                precs.push_back(p);
            }
        } else {
            precs = {0, 1, 2, 3, 6, 15, 17, 40};
        }
        plan.engine = "numx";
        plan.rule = "(i) sign x 2047 binary exponents x " + std::to_string(npat) + " mantissa patterns x " +
                    std::to_string(precs.size()) + " precisions x {Default,Fixed,SemiFixed}; (ii) k/1000 for k<=" + std::to_string(kmax) +
                    " x precision 0..6 x 3 formats; (iii) floats: all bit patterns whose low " + std::to_string(32 - fbits) +
                    " bits are zero, Default-6, Default-9, Fixed-3; (iii-b) doubles at and next to 0.<1..20 digits>5 x 10^k, k=-324..307, "
                    "18 digit prefixes x 3/6 fills, printed at the tie's own precision in all formats; exact ties m/2^j (j<=41, odd m<4096, "
                    "plus whole parts) at precision j-2..j and whole numbers o*5^a*2^b at one to three digits less than they have; (iv) all 8/16-bit integers, 32-bit integers with the low " +
                    std::to_string(32 - i32bits) + " bits in {0, all ones}, 64-bit boundary lattice; inf/nan; sentinel-prefixed "
                    "streams; char, char16_t, char32_t; oracle printf; distinct = distinct (class) outcomes + lattice points";
        plan.bounds = "patterns=" + std::to_string(npat) + " kmax=" + std::to_string(kmax) + " floatbits=" + std::to_string(fbits);
        {
            vx::Stage st;
            st.name   = "double-lattice";
            st.chunks = 2047;
            st.fn     = [npat](int64_t chunk, vx::Ctx &ctx) {
                for (int pi = 0; pi < npat; pi++) {
                    for (int sign = 0; sign < 2; sign++) {
                        uint64_t bits = ((uint64_t)sign << 63) | ((uint64_t)chunk << 52) | MANT[pi];
                        double   d;
                        memcpy(&d, &bits, 8);
                        for (unsigned prec : precs) {
                            for (int fmt = 0; fmt < 3; fmt++) {
                                if (!ctx.next()) {
                                    continue;
                                }
                                if (ctx.want_desc()) {
                                    char b[96];
                                    snprintf(b, sizeof b, "double bits=%016" PRIx64 " precision=%u format=%s", bits, prec, FMT_NAME[fmt]);
                                    ctx.describe(b);
                                }
                                ctx.acc.count("states");
                                unsigned pre = (unsigned)((chunk + pi + prec) % 3);
                                pre          = pre == 2 ? 7 : pre;
                                real_case<char>(d, prec, fmt, pre, ctx);
                                if (((chunk + prec) & 15) == 0) {
                                    real_case<char16_t>(d, prec, fmt, pre, ctx);
                                    real_case<char32_t>(d, prec, fmt, pre, ctx);
                                }
                                if (chunk == 1029 && pi == 15 && prec == 6) {
                                    char b[96];
                                    snprintf(b, sizeof b, "double bits=%016" PRIx64 " precision=%u format=%s", bits, prec, FMT_NAME[fmt]);
                                    ctx.acc.sample(b);
                                }
                            }
                        }
                    }
                }
            };
            plan.stages.push_back(st);
        }
        {
            vx::Stage st;
            st.name   = "thousandths";
            st.chunks = (kmax + 999) / 1000;
            st.fn     = [](int64_t chunk, vx::Ctx &ctx) {
                for (int k = (int)chunk * 1000; k < ((int)chunk + 1) * 1000; k++) {
                    double d = (double)k / 1000.0;
                    for (unsigned prec = 0; prec <= 6; prec++) {
                        for (int fmt = 0; fmt < 3; fmt++) {
                            if (!ctx.next()) {
                                continue;
                            }
                            if (ctx.want_desc()) {
                                char b[96];
                                snprintf(b, sizeof b, "%d/1000 precision=%u format=%s", k, prec, FMT_NAME[fmt]);
                                ctx.describe(b);
                            }
                            ctx.acc.count("states");
                            real_case<char>(d, prec, fmt, 0, ctx);
                            real_case<char>(-d, prec, fmt, 1, ctx);
                        }
                    }
                }
            };
            plan.stages.push_back(st);
        }
        {
            // doubles next to a decimal tie: 0.<digits>5 x 10^k rounded to a double, and its two neighbours, printed with
            // as many digits as put the '5' first among the discarded ones (Default), and at the matching Fixed precision
            vx::Stage st;
            st.name   = "decimal-ties";
            st.chunks = 632; // k = -324 .. 307
            st.fn     = [th](int64_t chunk, vx::Ctx &ctx) {
                static const char *PFX[] = {"1", "2", "4", "5", "8", "9", "10", "12", "19", "25", "49", "50", "75", "99", "100", "125", "999", "1024"};
                static const char *FILL[] = {"0000000000000000000000", "9999999999999999999999", "1428571428571428571428", "5050505050505050505050",
                                             "4999999999999999999999", "0000000000000000000001"};
                const int k = (int)chunk - 324;
                for (unsigned P = 1; P <= 20; P++) {
                    for (const char *pfx : PFX) {
                        if (strlen(pfx) > P) {
                            continue;
                        }
                        for (int fi = 0; fi < (th ? 6 : 3); fi++) {
                            if (!ctx.next()) {
                                continue;
                            }
                            char txt[96];
                            snprintf(txt, sizeof txt, "0.%s%.*s5e%d", pfx, (int)(P - strlen(pfx)), FILL[fi], k);
                            if (ctx.want_desc()) {
                                ctx.describe(std::string("tie ") + txt + " digits=" + std::to_string(P));
                            }
                            const double d0 = strtod(txt, nullptr);
                            if (!(d0 > 0) || !std::isfinite(d0)) {
                                continue;
                            }
                            ctx.acc.count("states");
                            const double ds[3] = {d0, std::nextafter(d0, INFINITY), std::nextafter(d0, 0.0)};
                            // the leading digit has decimal exponent k-1, the last kept one k-P
                            const int fp = (int)P - k;
                            for (double d : ds) {
                                if (!(d > 0) || !std::isfinite(d)) {
                                    continue;
                                }
                                real_case<char>(d, P, 0, 0, ctx);
                                real_case<char>(-d, P, 0, 1, ctx);
                                if (fp >= 0 && fp <= 40) {
                                    real_case<char>(d, (unsigned)fp, 1, 1, ctx);
                                    real_case<char>(-d, (unsigned)fp, 2, 0, ctx);
                                }
                            }
                        }
                    }
                }
            };
            plan.stages.push_back(st);
        }
        {
            // exact ties: m / 2^j ends in ...5 at its j-th fractional digit; whole numbers o * 5^a * 2^b (b < a) end in 5 and b zeros
            vx::Stage st;
            st.name   = "exact-ties";
            st.chunks = 64;
            st.fn     = [](int64_t chunk, vx::Ctx &ctx) {
                auto sig_digits = [](double d) {
                    char b[1200];
                    snprintf(b, sizeof b, "%.1100f", d);
                    int first = -1, last = -1, n = 0;
                    for (char *c = b; *c; c++) {
                        if (*c >= '0' && *c <= '9') {
                            if (*c != '0') {
                                if (first < 0) {
                                    first = n;
                                }
                                last = n;
                            }
                            n++;
                        }
                    }
                    return first < 0 ? 0 : last - first + 1;
                };
                // dyadic fractions: j = 1..41, m odd in 64*chunk .. 64*chunk+63 and m + 2^j * {1, 123456}
                for (unsigned j = 1; j <= 41; j++) {
                    for (uint64_t m = 64 * (uint64_t)chunk + 1; m < 64 * ((uint64_t)chunk + 1); m += 2) {
                        for (uint64_t whole : {uint64_t(0), uint64_t(1), uint64_t(123456)}) {
                            if (!ctx.next()) {
                                continue;
                            }
                            const double d = std::ldexp((double)m, -(int)j) + (double)whole;
                            if (ctx.want_desc()) {
                                ctx.describe("dyadic " + std::to_string(m) + "/2^" + std::to_string(j) + "+" + std::to_string(whole));
                            }
                            if (std::ldexp((double)m, -(int)j) >= 1.0 && whole != 0) {
                                continue;
                            }
                            ctx.acc.count("states");
                            const int sd = sig_digits(d);
                            for (int fmt = 1; fmt < 3; fmt++) {
                                real_case<char>(d, j - 1, fmt, 0, ctx);
                                real_case<char>(-d, j - 1, fmt, 1, ctx);
                                if (j >= 2) {
                                    real_case<char>(d, j - 2, fmt, 0, ctx);
                                }
                                if (j <= 40) {
                                    real_case<char>(d, j, fmt, 0, ctx);
                                }
                            }
                            if (sd >= 2 && sd <= 41) {
                                real_case<char>(d, (unsigned)sd - 1, 0, 0, ctx);
                                real_case<char>(-d, (unsigned)sd - 1, 0, 1, ctx);
                            }
                            if (sd >= 3 && sd <= 42) {
                                real_case<char>(d, (unsigned)sd - 2, 0, 0, ctx);
                            }
                        }
                    }
                }
                // whole numbers ending in 5 and zeros
                if (chunk < 32) {
                    const uint64_t o = 2 * (uint64_t)chunk + 1;
                    double         p5 = 1;
                    for (int a = 1; a <= 22; a++) {
                        p5 *= 5;
                        if ((double)o * p5 >= 9007199254740992.0) {
                            break;
                        }
                        for (int b = 0; b < a; b++) {
                            for (int extra : {0, 60, 300}) { // times 2^extra keeps the pattern only while b + extra < a; otherwise a plain whole number
                                if (!ctx.next()) {
                                    continue;
                                }
                                const double d = std::ldexp((double)o * p5, b + extra);
                                if (ctx.want_desc()) {
                                    ctx.describe("whole " + std::to_string(o) + "*5^" + std::to_string(a) + "*2^" + std::to_string(b + extra));
                                }
                                ctx.acc.count("states");
                                const int sd = sig_digits(d);
                                for (int dd = 1; dd <= 3; dd++) {
                                    if (sd - dd >= 1 && sd - dd <= 40) {
                                        real_case<char>(d, (unsigned)(sd - dd), 0, 0, ctx);
                                        real_case<char>(-d, (unsigned)(sd - dd), 0, 1, ctx);
                                    }
                                }
                                real_case<char>(d, 0, 1, 0, ctx);
                                real_case<char>(d, 2, 2, 0, ctx);
                            }
                        }
                    }
                }
            };
            plan.stages.push_back(st);
        }
        {
            // short mantissas: every mantissa with at most `sbits` leading bits (all others zero) at every binary exponent. Their
            // decimal expansions are short, so cutting the running product of the conversion down shows in the last digit.
            vx::Stage st;
            st.name   = "short-mantissas";
            st.chunks = 2047;
            const int sbits = atoi(a.get("shortbits", th ? "12" : "10").c_str());
            st.fn     = [sbits, th](int64_t chunk, vx::Ctx &ctx) {
                static const unsigned qp[] = {13, 14, 15, 16, 32, 33, 34, 35, 38, 39, 40};
                for (uint64_t m = 0; m < (1ull << sbits); m++) {
                    if (!ctx.next()) {
                        continue;
                    }
                    const uint64_t bits = ((uint64_t)chunk << 52) | (m << (52 - sbits));
                    double         d;
                    memcpy(&d, &bits, 8);
                    if (ctx.want_desc()) {
                        char b[96];
                        snprintf(b, sizeof b, "double bits=%016" PRIx64 " (short mantissa)", bits);
                        ctx.describe(b);
                    }
                    ctx.acc.count("states");
                    if (th) {
                        for (unsigned prec = 0; prec <= 40; prec++) {
                            real_case<char>(d, prec, 0, 0, ctx);
                        }
                        real_case<char>(-d, 15, 0, 1, ctx);
                        real_case<char>(d, 40, 1, 0, ctx);
                        real_case<char>(d, 40, 2, 1, ctx);
                    } else {
                        for (unsigned prec : qp) {
                            real_case<char>(d, prec, 0, 0, ctx);
                        }
                    }
                }
            };
            plan.stages.push_back(st);
        }
        {
            // all float subnormals and the smallest normals at the precisions where the float conversion cuts: 28..40
            vx::Stage st;
            st.name   = "float-subnormals";
            st.chunks = 256;
            st.fn     = [th](int64_t chunk, vx::Ctx &ctx) {
                const uint32_t per = th ? (1u << 24) / 256 : 4096 / 256 * 16; // thorough: all 2^23 subnormals and as many normals; quick: the lowest 4096 patterns
                for (uint32_t i = 0; i < per; i++) {
                    if (!ctx.next()) {
                        continue;
                    }
                    const uint32_t bits = (uint32_t)chunk * per + i;
                    float          f;
                    memcpy(&f, &bits, 4);
                    if (ctx.want_desc()) {
                        char b[64];
                        snprintf(b, sizeof b, "float bits=%08x (subnormal range)", bits);
                        ctx.describe(b);
                    }
                    ctx.acc.count("states");
                    for (unsigned prec : {28u, 33u, 38u, 39u, 40u}) {
                        real_case<char>(f, prec, 0, 0, ctx);
                    }
                    real_case<char>(f, 40, 1, 0, ctx);
                }
            };
            plan.stages.push_back(st);
        }
        {
            vx::Stage st;
            st.name   = "floats";
            st.chunks = 4096;
            st.fn     = [fbits](int64_t chunk, vx::Ctx &ctx) {
                // chunk = top 12 bits; enumerate the next (fbits-12) bits, low bits zero
                const uint32_t n = 1u << (fbits - 12);
                for (uint32_t i = 0; i < n; i++) {
                    uint32_t bits = ((uint32_t)chunk << 20) | (i << (32 - fbits));
                    float    f;
                    memcpy(&f, &bits, 4);
                    if (!ctx.next()) {
                        continue;
                    }
                    if (ctx.want_desc()) {
                        char b[64];
                        snprintf(b, sizeof b, "float bits=%08x", bits);
                        ctx.describe(b);
                    }
                    ctx.acc.count("states");
                    real_case<char>(f, 6, 0, 0, ctx);
                    real_case<char>(f, 9, 0, 1, ctx);
                    real_case<char>(f, 3, 1, 0, ctx);
                }
            };
            plan.stages.push_back(st);
        }
        {
            vx::Stage st;
            st.name   = "integers";
            st.chunks = 4096;
            st.fn     = [i32bits](int64_t chunk, vx::Ctx &ctx) {
                if (!ctx.next()) {
                    return;
                }
                if (ctx.want_desc()) {
                    ctx.describe("integer chunk " + std::to_string(chunk));
                }
                if (chunk == 0) {
                    for (int v = -128; v < 256; v++) {
                        if (v < 128) {
                            int_case<signed char>((signed char)v, ctx);
                        }
                        if (v >= 0) {
                            int_case<unsigned char>((unsigned char)v, ctx);
                        }
                    }
                    for (int v = -32768; v < 65536; v++) {
                        if (v < 32768) {
                            int_case<short>((short)v, ctx);
                        }
                        if (v >= 0) {
                            int_case<unsigned short>((unsigned short)v, ctx);
                        }
                    }
                    // 64-bit boundary lattice
                    for (int k = 0; k < 64; k++) {
                        for (int d = -2; d <= 2; d++) {
                            unsigned long long u = (1ULL << k) + (unsigned long long)(long long)d;
                            int_case<unsigned long long>(u, ctx);
                            int_case<long long>((long long)u, ctx);
                            int_case<unsigned long long>(~u, ctx);
                            int_case<long long>((long long)~u, ctx);
                            int_case<unsigned long long>(~0ULL << k, ctx);
                            int_case<long long>((long long)(~0ULL >> k), ctx);
                        }
                    }
                    unsigned long long p10 = 1;
                    for (int k = 0; k < 20; k++) {
                        for (int d = -2; d <= 2; d++) {
                            int_case<unsigned long long>(p10 + (unsigned long long)(long long)d, ctx);
                            int_case<long long>((long long)(p10 + (unsigned long long)(long long)d), ctx);
                            int_case<long long>(-(long long)(p10 + (unsigned long long)(long long)d), ctx);
                        }
                        p10 *= 10;
                    }
                    int_case<long long>(INT64_MIN, ctx);
                    int_case<int>(INT32_MIN, ctx);
                }
                // 32-bit: chunk = top 12 bits; next (i32bits-12) bits enumerated; low bits 0 and all-ones
                const uint32_t n    = 1u << (i32bits - 12);
                const uint32_t lowm = (i32bits == 32) ? 0 : ((1u << (32 - i32bits)) - 1);
                for (uint32_t i = 0; i < n; i++) {
                    uint32_t v = ((uint32_t)chunk << 20) | (i << (32 - i32bits));
                    int_case<unsigned int>(v, ctx);
                    int_case<int>((int)v, ctx);
                    if (lowm) {
                        int_case<unsigned int>(v | lowm, ctx);
                        int_case<int>((int)(v | lowm), ctx);
                    }
                    ctx.acc.count("states");
                }
            };
            plan.stages.push_back(st);
        }
        {
            vx::Stage st;
            st.name   = "specials";
            st.chunks = 1;
            st.fn     = [](int64_t, vx::Ctx &ctx) {
                const uint64_t sp[] = {0x7FF0000000000000ULL, 0xFFF0000000000000ULL, 0x7FF8000000000000ULL, 0x7FF0000000000001ULL,
                                       0x0000000000000000ULL, 0x8000000000000000ULL};
                for (uint64_t b : sp) {
                    double d;
                    memcpy(&d, &b, 8);
                    for (unsigned prec : precs) {
                        for (int fmt = 0; fmt < 3; fmt++) {
                            if (!ctx.next()) {
                                continue;
                            }
                            ctx.acc.count("states");
                            if (std::isnan(d)) {
                                // printf prints the sign of a NaN; the property only says "nan"
                                StringStream<char> ss;
                                Digit::NumberToString(ss, d, Digit::RealFormatInfo{prec});
                                if (!(ss.Length() == 3 && memcmp(ss.First(), "nan", 3) == 0)) {
                                    ctx.fail("nan bits " + std::to_string(b), "printed as '" + narrow(ss.First(), ss.Length()) + "'");
                                }
                                continue;
                            }
                            real_case<char>(d, prec, fmt, 7, ctx);
                            real_case<char16_t>(d, prec, fmt, 1, ctx);
                            real_case<char>((float)d, prec, fmt, 0, ctx);
                        }
                    }
                }
            };
            plan.stages.push_back(st);
        }
        plan.transitions_counter = "evals";
        plan.finish = [](vx::Part &p) { p.distinct_extra = p.acc.counters["states"]; };
        plan.assumptions = {"glibc printf %g/%f are correctly rounded digits of the exact binary value (trusted base)"};
        return plan;
    });
}
