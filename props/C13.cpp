// C13 - the hash array is an insertion-ordered map under every operation sequence. (systems in c13_sys.hpp)
#include "c13_sys.hpp"

int main(int argc, char **argv) {
    return vx::standard_main(argc, argv, [](const vx::Args &a) {
        vx::Plan   plan;
        const bool th    = a.thorough();
        const int  depth = atoi(a.get("depth", th ? "4" : "3").c_str());
        plan.engine = "seqx";
        std::string ks;
        for (auto &k : KEYS().k) {
            ks += kshow(k) + " ";
        }
        plan.rule = "breadth-first over operation histories (depth " + std::to_string(depth) + ") on two registers of HArray<String,String> and "
                    "HList<String>; keys " + ks + "chosen with the real hash function (empty, embedded NUL, three keys in one bucket at "
                    "capacities 2/4/8, one in the other bucket, one with equal low 16 hash bits, and proper-prefix pairs with EQUAL full hashes); model: vector of live (key,value) in "
                    "first-insertion order; after every transition: lookups of all alphabet keys + an absent key by every lookup function, "
                    "key<->index agreement, live iteration order, ActualSize, and the structural invariants of the one-block table "
                    "(capacity power of two, each live item exactly once on the chain of Hash&(cap-1), chains acyclic, stored hash fresh)";
        plan.bounds = "depth=" + std::to_string(depth);
        static seqx::Search<HSys<false>> s_ha;
        static seqx::Search<HSys<true>>  s_hl;
        auto add = [&](auto &srch, const char *nm, int d) {
            srch.name        = nm;
            srch.max_depth   = d;
            srch.per_chunk   = 8;
            srch.stage_index = (int)plan.stages.size();
            plan.stages.push_back(srch.stage());
        };
        add(s_ha, "HArray<String,String>", depth);
        add(s_hl, "HList<String>", depth);
        plan.evals_counter = "transitions";
        plan.finish = [](vx::Part &p) {
            p.distinct_extra = p.acc.counters["states"];
            p.bounds += " | " + s_ha.summary() + " | " + s_hl.summary();
        };
        plan.assumptions = {"slot numbers are observed only through the API itself (GetKey/GetKeyIndex agreement), never compared with a model",
                            "Resize(n) is explored for n >= Size() and n == 0 (shrinking below the slot count depends on slot numbers)",
                            "the order after Sort is the library's own String order, which C15 validates"};
        return plan;
    });
}
