// C18 - grouping partitions an array of objects by key value, wherever the key sits.
// Bounded-exhaustive: every array of <= N objects drawn from (7 grouping values) x (10 object shapes).
#include "vx_ledger.hpp"
#include "vx_main.hpp"
#include "Value.hpp"
#include "Template.hpp"
#include "value_dump.hpp"

using namespace Qentem;
using V = Value<char>;

struct GVal {
    const char *name;
    const char *text; // textual value used as the group name
    int         kind; // 0 uint, 1 string, 2 double, 3 true, 4 null
    double      num;
    const char *str;
};
static const GVal GV[11] = {{"1", "1", 0, 1, nullptr},      {"\"1\"", "1", 1, 0, "1"},   {"2", "2", 0, 2, nullptr}, {"2.5", "2.5", 2, 2.5, nullptr},
                           {"true", "true", 3, 0, nullptr}, {"null", "null", 4, 0, nullptr}, {"\"x\"", "x", 1, 0, "x"},
                           // "10" and "20" have the same full hash (the hash ignores the first unit of longer keys): only the text tells them apart
                           {"10", "10", 0, 10, nullptr}, {"20", "20", 0, 20, nullptr},
                           // two reals that differ in the third decimal only: the group name is the value's text, not a rounded rendering
                           {"0.125", "0.125", 2, 0.125, nullptr}, {"0.126", "0.126", 2, 0.126, nullptr}};
static const int NK = 110; // element kinds: 11 grouping values x 10 shapes
static void set_g(V &slot, const GVal &g) {
    switch (g.kind) {
        case 0: slot = SizeT64(g.num); break;
        case 1: slot = g.str; break;
        case 2: slot = g.num; break;
        case 3: slot = true; break;
        case 4: slot = nullptr; break;
    }
}
static std::string dump_g(const GVal &g) {
    V t;
    set_g(t, g);
    return ref::dump(t);
}

static const char *SHAPE_NAME[10] = {"{y,m}", "{m,y}", "{y,m,z:7}", "{m,z:\"s\",y}", "{z:[1],y,m}", "{r(removed),m,y}",
                                     "{y,m,r(removed)}", "{y,r(reset),m}", "{m(removed),y}", "{y}"};
// member names: "ky" is the grouping key; "zy" and "ry" have the same full hash as "ky" (the hash leaves out the first unit of
// longer names), so only the text tells them apart
// builds element `idx` with shape s and grouping value g; appends the expected members (without the key) to `exp`
static void build(V &obj, int s, const GVal &g, unsigned idx, std::string &exp) {
    auto M = [&](V &o) { o["m"] = SizeT64(idx); };
    auto Y = [&](V &o) { set_g(o["ky"], g); };
    const std::string m = "\"m\":u" + std::to_string(idx);
    switch (s) {
        case 0: Y(obj); M(obj); exp = "{" + m + "}"; break;
        case 1: M(obj); Y(obj); exp = "{" + m + "}"; break;
        case 2: Y(obj); M(obj); obj["zy"] = SizeT64{7}; exp = "{" + m + ",\"zy\":u7}"; break;
        case 3: M(obj); obj["zy"] = "s"; Y(obj); exp = "{" + m + ",\"zy\":\"s\"}"; break;
        case 4: obj["zy"][0] = SizeT64{1}; Y(obj); M(obj); exp = "{\"zy\":[u1]," + m + "}"; break;
        case 5: obj["ry"] = SizeT64{9}; M(obj); Y(obj); obj.Remove("ry"); exp = "{" + m + "}"; break;
        case 6: Y(obj); M(obj); obj["ry"] = SizeT64{9}; obj.Remove("ry"); exp = "{" + m + "}"; break;
        case 7: Y(obj); obj["ry"] = SizeT64{9}; M(obj); obj["ry"].Reset(); exp = "{" + m + "}"; break;
        case 8: M(obj); Y(obj); obj.Remove("m"); exp = "{}"; break;
        case 9: Y(obj); exp = "{}"; break;
    }
}

static void run_array(const std::vector<int> &elems, vx::Ctx &ctx) {
    // elems[i] = g*10 + shape
    V                        arr;
    std::vector<std::string> gnames;                // first-appearance order
    std::vector<std::vector<std::string>> gmembers; // expected member dumps per group
    std::vector<std::vector<unsigned>>    gidx;
    std::string desc = "[";
    for (size_t i = 0; i < elems.size(); i++) {
        const GVal &g = GV[elems[i] / 10];
        int         s = elems[i] % 10;
        V           o;
        std::string exp;
        build(o, s, g, (unsigned)(10 + i), exp);
        arr += std::move(o);
        size_t gi = 0;
        for (; gi < gnames.size(); gi++) {
            if (gnames[gi] == g.text) {
                break;
            }
        }
        if (gi == gnames.size()) {
            gnames.push_back(g.text);
            gmembers.emplace_back();
            gidx.emplace_back();
        }
        gmembers[gi].push_back(exp);
        gidx[gi].push_back((unsigned)(10 + i));
        desc += std::string(i ? "," : "") + SHAPE_NAME[s] + " y=" + g.name;
    }
    desc += "]";
    if (ctx.want_desc()) {
        ctx.describe(desc);
    }
    std::string expected = "{";
    for (size_t gi = 0; gi < gnames.size(); gi++) {
        expected += std::string(gi ? "," : "") + "\"" + gnames[gi] + "\":[";
        for (size_t k = 0; k < gmembers[gi].size(); k++) {
            expected += std::string(k ? "," : "") + gmembers[gi][k];
        }
        expected += "]";
    }
    expected += "}";
    const std::string before = ref::dump(arr);
    V                 grouped;
    grouped = SizeT64{99}; // a dirty destination must be replaced
    const bool ok = arr.GroupBy(grouped, "ky");
    ctx.acc.count("evals");
    const std::string got = ref::dump(grouped, false);
    if (!ok || got != expected) {
        ctx.fail("GroupBy(y) of " + desc, std::string(ok ? "" : "returned false; ") + "result " + got + ", partition " + expected);
    }
    if (ref::dump(arr) != before) {
        ctx.fail("GroupBy(y) of " + desc, "the source array was modified");
    }
    {
        // the same result value handed in again (now a non-empty object): the old groups must not survive
        const bool ok2 = arr.GroupBy(grouped, "ky");
        ctx.acc.count("evals");
        const std::string got2 = ref::dump(grouped, false);
        if (!ok2 || got2 != expected) {
            ctx.fail("GroupBy(y) twice into one result, of " + desc, std::string(ok2 ? "" : "returned false; ") + "result " + got2 + ", partition " + expected);
        }
    }
    {
        // the same array reached through a pointer-to-value, and an array whose items are pointers to the same objects
        V holder;
        holder.SetPointerToValue(&arr);
        V parr;
        for (SizeT i = 0; i < arr.Size(); i++) {
            parr.AddPointerToValue(arr.GetValue(i));
        }
        if (arr.Size() == 0) {
            parr = ValueType::Array;
        }
        for (int which = 0; which < 2; which++) {
            V          g3;
            const bool ok3 = (which == 0 ? holder : parr).GroupBy(g3, "ky");
            ctx.acc.count("evals");
            const std::string got3 = ref::dump(g3, false);
            if (!ok3 || got3 != expected) {
                ctx.fail(std::string(which == 0 ? "GroupBy(y) through a pointer to the array, of " : "GroupBy(y) of an array of pointers to the objects, of ") + desc,
                         std::string(ok3 ? "" : "returned false; ") + "result " + got3 + ", partition " + expected);
            }
        }
        if (ref::dump(arr) != before) {
            ctx.fail("GroupBy(y) through pointers of " + desc, "the source array was modified");
        }
    }
    {
        // the result value is the source itself
        V self(arr);
        const bool ok4 = self.GroupBy(self, "ky");
        ctx.acc.count("evals");
        const std::string got4 = ref::dump(self, false);
        if (!ok4 || got4 != expected) {
            ctx.fail("GroupBy(y) into the source itself, of " + desc, std::string(ok4 ? "" : "returned false; ") + "result " + got4 + ", partition " + expected);
        }
    }
    if (arr.Size() != 0) {
        // the same array emptied (its storage stays): nothing to group, and nothing of the old items may be looked at
        for (int how = 0; how < 2; how++) {
            V emptied(arr);
            V::ArrayT *a = const_cast<V::ArrayT *>(emptied.GetArray());
            if (how == 0) {
                a->Clear();
            } else {
                a->Drop(a->Size());
            }
            V          g5;
            const bool ok5 = emptied.GroupBy(g5, "ky");
            ctx.acc.count("evals");
            if (ok5 && g5.Size() != 0) {
                ctx.fail(std::string("GroupBy(y) of the emptied array (") + (how == 0 ? "Clear" : "Drop") + ") of " + desc, "produced groups: " + ref::dump(g5, false));
            }
            static const char *tpl5 = "<loop value=\"v\" group=\"ky\">{var:v}</loop>";
            StringStream<char> s5;
            Template::Render(tpl5, SizeT(strlen(tpl5)), emptied, s5);
            if (s5.Length() != 0) {
                ctx.fail(std::string("<loop group=y> over the emptied array of ") + desc, "rendered '" + std::string(s5.First(), s5.Length()) + "'");
            }
        }
    }
    ctx.acc.outcome(vx::hstr(expected));
    // the same partition through <loop group="y">
    {
        static const char *tpl = "<loop value=\"v\" group=\"ky\">{var:v}=<loop set=\"v\" value=\"w\">{var:w[m]},</loop>;</loop>";
        StringStream<char> ss;
        Template::Render(tpl, SizeT(strlen(tpl)), arr, ss);
        ctx.acc.count("evals");
        std::string want;
        for (size_t gi = 0; gi < gnames.size(); gi++) {
            want += gnames[gi] + "=";
            for (size_t k = 0; k < gidx[gi].size(); k++) {
                // members whose "m" was removed have nothing to print: the tag is echoed
                bool has_m = gmembers[gi][k].find("\"m\":") != std::string::npos;
                want += (has_m ? std::to_string(gidx[gi][k]) : std::string("{var:w[m]}")) + ",";
            }
            want += ";";
        }
        std::string gs(ss.First() ? ss.First() : "", ss.Length());
        if (gs != want) {
            ctx.fail("<loop group=y> over " + desc, "rendered '" + gs + "', partition '" + want + "'");
        }
        if (ref::dump(arr) != before) {
            ctx.fail("<loop group=y> over " + desc, "the caller's array was modified");
        }
    }
    if (vx::ledger().live != 0) {
        // arr/grouped are still alive here; checked by the caller after destruction
    }
}

int main(int argc, char **argv) {
    return vx::standard_main(argc, argv, [](const vx::Args &a) {
        vx::Plan   plan;
        const bool th = a.thorough();
        const int  n  = atoi(a.get("n", th ? "4" : "3").c_str());
        plan.engine = "langx";
        plan.rule = "every array of <=" + std::to_string(n) + " objects, each drawn from 11 grouping values (1, \"1\", 2, 2.5, true, null, \"x\", 10, 20, 0.125, 0.126: equal "
                    "texts from different kinds meet, and 10/20 collide in the full hash) x 10 shapes (key first/last/middle, extra members of number/string/array kind, a removed "
                    "member before/after the key, a member reset to undefined, the other member removed, key only); oracle: reference "
                    "partition (first-appearance order of the textual values, members in input order minus the key), source unchanged, "
                    "<loop group> renders the same partition; distinct = distinct partitions";
        plan.bounds = "n<=" + std::to_string(n) + " over 110 element kinds";
        vx::Stage st;
        st.name   = "arrays";
        st.chunks = NK * NK + 1;
        st.fn     = [n](int64_t chunk, vx::Ctx &ctx) {
            auto one = [&](const std::vector<int> &e) {
                ctx.acc.count("states");
                if (!ctx.next()) {
                    return;
                }
                run_array(e, ctx);
                if (vx::ledger().live != 0 || vx::ledger().foreign != 0) {
                    ctx.fail("ledger after an array", "leak or foreign release");
                    vx::ledger().clear();
                }
                if ((ctx.idx % 4001) == 17) {
                    std::string s;
                    for (int x : e) {
                        s += std::string(SHAPE_NAME[x % 10]) + " y=" + GV[x / 10].name + "; ";
                    }
                    ctx.acc.sample(s);
                }
            };
            if (chunk == NK * NK) {
                for (int a0 = 0; a0 < NK; a0++) {
                    one({a0});
                }
                return;
            }
            int a0 = (int)(chunk / NK), a1 = (int)(chunk % NK);
            one({a0, a1});
            if (n >= 3) {
                for (int a2 = 0; a2 < NK; a2++) {
                    one({a0, a1, a2});
                    if (n >= 4) {
                        for (int a3 = 0; a3 < NK; a3++) {
                            one({a0, a1, a2, a3});
                        }
                    }
                }
            }
        };
        plan.stages.push_back(st);
        plan.transitions_counter = "evals";
        plan.assumptions = {"every generated object contains the grouping key (the property's scope)",
                            "numbers print as their shortest decimal text (1, 2, 2.5)"};
        return plan;
    });
}
