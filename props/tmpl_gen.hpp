// tmpl_gen.hpp - W_k: every well-formed template over macro tags with <= k nodes (nesting <= 4, sections of <= 2 nodes),
// as token lists; Dev_d: every text at deviation distance <= d from one of them (delete a token, insert an alphabet token
// anywhere, swap two neighbours, replace a closer by another closer) and every code-unit cut.
#ifndef TMPL_GEN_HPP
#define TMPL_GEN_HPP
#include "langx.hpp"

namespace tgen {
using langx::Text;
using langx::T;

struct Grammar {
    std::vector<Text> tok; // token table
    std::vector<int>  leaf;
    struct Cont {
        int              open;
        std::vector<int> mids;
        int              close;
    };
    std::vector<Cont> conts;
    std::vector<int>  closers;    // tokens that close/separate sections
    std::vector<int>  insertable; // deviation alphabet
    int add(const char *s) {
        Text t = T(s);
        for (size_t i = 0; i < tok.size(); i++) {
            if (tok[i] == t) {
                return (int)i;
            }
        }
        tok.push_back(t);
        return (int)tok.size() - 1;
    }
    Grammar() {
        for (const char *l : {"x", "{var:a}", "{var:v}", "{var:b[0]}", "{var:v[a]}", "{raw:s}", "{math:1%0}", "{math:1%0.5}", "{math:{var:a}%{var:h}}", "{math:{var:a}%{var:b}}",
                              "{math:{var:a}+1}", "{svar:p,{var:a},{math:1+1}}", "{if case=\"1\" true=\"{var:a}\" false=\"F\"}",
                              "{if case=\"{var:a}==1\" true=\"T\"}"}) {
            leaf.push_back(add(l));
        }
        auto cont = [&](const char *o, std::initializer_list<const char *> m, const char *c) {
            Cont x;
            x.open = add(o);
            for (auto mm : m) {
                x.mids.push_back(add(mm));
            }
            x.close = add(c);
            conts.push_back(x);
        };
        cont("<if case=\"1\">", {}, "</if>");
        cont("<if case=\"{var:z}\">", {"<else>"}, "</if>");
        cont("<if case=\"0\">", {"<else if case=\"1\">"}, "</if>");
        cont("<if case=\"0\">", {"<elseif case=\"0\" />", "<else />"}, "</if>");
        cont("<loop value=\"v\">", {}, "</loop>");
        cont("<loop set=\"b\" value=\"v\" sort=\"ascend\">", {}, "</loop>");
        cont("<loop set=\"g\" value=\"v\" group=\"y\">", {}, "</loop>");
        cont("<loop set=\"v\" value=\"w\">", {}, "</loop>");
        for (const char *c : {"</if>", "</loop>", "<else>", "<else if case=\"1\">", "<elseif case=\"0\" />", "<else />", "}"}) {
            closers.push_back(add(c));
        }
        for (size_t i = 0; i < tok.size(); i++) {
            insertable.push_back((int)i);
        }
        for (const char *f : {"{", "<", ">", "\"", "{var:", "{math:", "{svar:", "{if", "<loop", "<if", "<else", " case=\"", "[", "]"}) {
            insertable.push_back(add(f));
        }
    }
};

using Tokens = std::vector<uint8_t>;

struct Gen {
    const Grammar      &g;
    int                 max_nodes, max_depth = 4, max_section = 2;
    std::vector<Tokens> out;
    Tokens              cur;
    explicit Gen(const Grammar &gr, int k) : g(gr), max_nodes(k) {}
    // body: a sequence of 0..max_section nodes using at most `budget` nodes; k(used)
    void body(int budget, int depth, int count, const std::function<void(int)> &k) {
        k(0);
        if (count >= max_section || budget < 1) {
            return;
        }
        node(budget, depth, [&](int used) { body(budget - used, depth, count + 1, [&](int u2) { k(used + u2); }); });
    }
    void node(int budget, int depth, const std::function<void(int)> &k) {
        if (budget < 1) {
            return;
        }
        size_t mark = cur.size();
        for (int l : g.leaf) {
            cur.push_back((uint8_t)l);
            k(1);
            cur.resize(mark);
        }
        if (depth >= max_depth) {
            return;
        }
        for (auto &c : g.conts) {
            cur.push_back((uint8_t)c.open);
            sections(c, 0, budget - 1, depth, [&](int used) {
                size_t m2 = cur.size();
                cur.push_back((uint8_t)c.close);
                k(used + 1);
                cur.resize(m2);
            });
            cur.resize(mark);
        }
    }
    void sections(const Grammar::Cont &c, size_t si, int budget, int depth, const std::function<void(int)> &k) {
        body(budget, depth + 1, 0, [&](int used) {
            if (si == c.mids.size()) {
                k(used);
                return;
            }
            size_t m2 = cur.size();
            cur.push_back((uint8_t)c.mids[si]);
            sections(c, si + 1, budget - used, depth, [&](int u2) { k(used + u2); });
            cur.resize(m2);
        });
    }
    void run() {
        // top level: a sequence of up to 3 nodes
        std::function<void(int, int)> top = [&](int budget, int count) {
            if (!cur.empty()) {
                out.push_back(cur);
            }
            if (count >= 3 || budget < 1) {
                return;
            }
            node(budget, 0, [&](int used) { top(budget - used, count + 1); });
        };
        top(max_nodes, 0);
        std::sort(out.begin(), out.end());
        out.erase(std::unique(out.begin(), out.end()), out.end());
    }
};

inline Text render(const Grammar &g, const Tokens &t) {
    Text r;
    for (uint8_t x : t) {
        r += g.tok[x];
    }
    return r;
}

// calls f(text) for the base template and every deviation of distance 1 (d>=1); for d>=2 also pairs of (delete, insert)
template <typename F>
inline void deviations(const Grammar &g, const Tokens &base, int d, bool cuts, F &&f) {
    Text full = render(g, base);
    f(full);
    if (cuts) {
        for (size_t n = 1; n < full.size(); n++) {
            f(full.substr(0, n));
        }
    }
    if (d < 1) {
        return;
    }
    auto each1 = [&](const Tokens &t, const std::function<void(const Tokens &)> &k) {
        for (size_t i = 0; i < t.size(); i++) { // delete
            Tokens x = t;
            x.erase(x.begin() + (long)i);
            k(x);
        }
        for (size_t i = 0; i <= t.size(); i++) { // insert
            for (int a : g.insertable) {
                Tokens x = t;
                x.insert(x.begin() + (long)i, (uint8_t)a);
                k(x);
            }
        }
        for (size_t i = 0; i + 1 < t.size(); i++) { // swap neighbours
            if (t[i] != t[i + 1]) {
                Tokens x = t;
                std::swap(x[i], x[i + 1]);
                k(x);
            }
        }
        for (size_t i = 0; i < t.size(); i++) { // closer replaced by another closer
            bool is_closer = false;
            for (int c : g.closers) {
                is_closer = is_closer || t[i] == c;
            }
            if (!is_closer) {
                continue;
            }
            for (int c : g.closers) {
                if (c != t[i]) {
                    Tokens x = t;
                    x[i]     = (uint8_t)c;
                    k(x);
                }
            }
        }
    };
    each1(base, [&](const Tokens &x) {
        f(render(g, x));
        if (d >= 2) {
            // second deviation: deletions and closer replacements only (keeps the space tractable)
            for (size_t i = 0; i < x.size(); i++) {
                Tokens y = x;
                y.erase(y.begin() + (long)i);
                f(render(g, y));
            }
        }
    });
}
} // namespace tgen
#endif
