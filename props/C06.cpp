// C06 - every RFC 8259 document parses to the value it denotes.  Engine E2 + independent reference parser.
#include "json_common.hpp"
#include "utf_ref.hpp"
#include "json_ref.hpp"
#include "json_gen.hpp"

using namespace jgen;

static uint64_t dbits(double d) {
    uint64_t u;
    memcpy(&u, &d, 8);
    return u;
}
static bool within_ulp(double a, double b) {
    if (a == b) {
        return true;
    }
    uint64_t x = dbits(a), y = dbits(b);
    if ((x >> 63) != (y >> 63)) {
        return false;
    }
    uint64_t d = x > y ? x - y : y - x;
    return d <= 1;
}

template <typename C>
static bool same_units(const C *p, size_t n, const std::u32string &cps) {
    if (sizeof(C) == 1) {
        for (char32_t c : cps) {
            if (c >= 0xD800 && c <= 0xDFFF) {
                return true; // a single surrogate has no UTF-8 form: not judged for this target (UTF-16 and UTF-32 are)
            }
        }
    }
    Text want = to_units<C>(cps);
    if (want.size() != n) {
        return false;
    }
    for (size_t i = 0; i < n; i++) {
        if ((uint32_t)(typename std::make_unsigned<C>::type)p[i] != want[i]) {
            return false;
        }
    }
    return true;
}

// returns "" when v denotes n, else a description of the first difference
template <typename C>
static std::string compare(const Value<C> &v, const ref::JNode &n, const std::string &path) {
    using ref::JNode;
    switch (n.kind) {
        case JNode::Null: return v.Type() == ValueType::Null ? "" : path + ": expected null";
        case JNode::True: return v.Type() == ValueType::True ? "" : path + ": expected true";
        case JNode::False: return v.Type() == ValueType::False ? "" : path + ": expected false";
        case JNode::Str:
            if (v.Type() != ValueType::String) {
                return path + ": expected a string";
            }
            if (!same_units(v.StringStorage(), v.Length(), n.str)) {
                return path + ": string units differ";
            }
            if (v.StringStorage()[v.Length()] != C(0)) {
                return path + ": string not NUL-terminated";
            }
            return "";
        case JNode::Int:
        case JNode::Real: {
            if (n.kind == JNode::Int && n.int_fits) {
                bool zero_neg = n.neg && n.mag == 0; // "-0"
                if (!n.neg || zero_neg) {
                    if (v.Type() == ValueType::UIntLong && v.GetUInt64() == n.mag) {
                        return "";
                    }
                    if (v.Type() == ValueType::IntLong && n.mag <= 0x7FFFFFFFFFFFFFFFULL && v.GetInt64() == (long long)n.mag) {
                        return "";
                    }
                    if (zero_neg && v.Type() == ValueType::Double && v.GetDouble() == 0.0) {
                        return "";
                    }
                } else {
                    if (v.Type() == ValueType::IntLong && (unsigned long long)v.GetInt64() == (0ULL - n.mag)) {
                        return "";
                    }
                }
                return path + ": integer " + n.numeral + " not stored exactly";
            }
            if (!(v.Type() == ValueType::Double || v.Type() == ValueType::UIntLong || v.Type() == ValueType::IntLong)) {
                return path + ": expected a number for " + n.numeral;
            }
            if (v.Type() == ValueType::Double) {
                if (!within_ulp(v.GetDouble(), n.real)) {
                    char b[128];
                    snprintf(b, sizeof b, ": %s -> %.17g, correctly rounded %.17g", n.numeral.c_str(), v.GetDouble(), n.real);
                    return path + b;
                }
                return "";
            }
            // an integer kind for a numeral with fraction/exponent: acceptable only when it is the exact value
            {
                double asd = (v.Type() == ValueType::UIntLong) ? double(v.GetUInt64()) : double(v.GetInt64());
                if (asd == n.real && n.real == (double)(long long)n.real) {
                    return "";
                }
                return path + ": " + n.numeral + " stored as a different integer";
            }
        }
        case JNode::Arr: {
            if (v.Type() != ValueType::Array) {
                return path + ": expected an array";
            }
            if (v.Size() != n.items.size()) {
                return path + ": array size " + std::to_string(v.Size()) + " expected " + std::to_string(n.items.size());
            }
            for (size_t i = 0; i < n.items.size(); i++) {
                const Value<C> *e = v.GetValue(SizeT(i));
                if (e == nullptr) {
                    return path + "[" + std::to_string(i) + "]: missing";
                }
                std::string r = compare(*e, n.items[i], path + "[" + std::to_string(i) + "]");
                if (!r.empty()) {
                    return r;
                }
            }
            return "";
        }
        case JNode::Obj: {
            if (v.Type() != ValueType::Object) {
                return path + ": expected an object";
            }
            if (v.Size() != n.members.size()) {
                return path + ": object size " + std::to_string(v.Size()) + " expected " + std::to_string(n.members.size());
            }
            for (size_t i = 0; i < n.members.size(); i++) {
                const String<C> *k = v.GetKey(SizeT(i));
                const Value<C>  *e = v.GetValue(SizeT(i));
                if (k == nullptr || e == nullptr) {
                    return path + ".#" + std::to_string(i) + ": missing member";
                }
                if (!same_units(k->First(), k->Length(), n.members[i].first)) {
                    return path + ".#" + std::to_string(i) + ": key differs (member order / duplicate handling)";
                }
                // lookup by key must give the same member
                const Value<C> *byk = v.GetValue(k->First(), k->Length());
                if (byk != e) {
                    return path + ".#" + std::to_string(i) + ": lookup by key finds another member";
                }
                std::string r = compare(*e, n.members[i].second, path + ".#" + std::to_string(i));
                if (!r.empty()) {
                    return r;
                }
            }
            return "";
        }
    }
    return "";
}

static bool diff_overloads = true;
template <typename C>
static void judge(const Text &cps, const ref::JNode &want, langx::Exact<C> &ex, vx::Ctx &ctx) {
    Text     units = to_units<C>(cps);
    const C *p     = ex.put(units);
    {
        Value<C> v = JSON::Parse(p, SizeT(units.size()));
        ctx.acc.count("evals");
        std::string diff;
        if (v.IsUndefined()) {
            diff = "document rejected";
        } else {
            diff = compare(v, want, "$");
        }
        if (!diff.empty()) {
            ctx.fail(std::string(wname<C>()) + " " + langx::show(cps), diff);
        }
    }
    // the other public entry points: the terminated-text overload (documents without a NUL unit) and the overload that takes the
    // caller's scratch stream, used for two parses in a row
    if (diff_overloads) {
        bool has_nul = false;
        for (char32_t u : units) {
            has_nul = has_nul || u == 0;
        }
        if (!has_nul) {
            std::basic_string<C> z;
            for (char32_t u : units) {
                z.push_back((C)u);
            }
            Value<C> v = JSON::Parse(z.c_str());
            ctx.acc.count("evals");
            std::string diff = v.IsUndefined() ? std::string("document rejected") : compare(v, want, "$");
            if (!diff.empty()) {
                ctx.fail(std::string(wname<C>()) + " (terminated-text overload) " + langx::show(cps), diff);
            }
        }
        {
            StringStream<C> scratch;
            {
                Value<C> first = JSON::Parse(scratch, p, SizeT(units.size()));
            }
            Value<C> v = JSON::Parse(scratch, p, SizeT(units.size())); // second parse through the same stream
            ctx.acc.count("evals");
            std::string diff = v.IsUndefined() ? std::string("document rejected") : compare(v, want, "$");
            if (!diff.empty()) {
                ctx.fail(std::string(wname<C>()) + " (caller's stream overload, stream reused) " + langx::show(cps), diff);
            }
        }
    }
    ledger_ok(ctx, langx::show(cps));
}

static const int64_t NCH = 64;

int main(int argc, char **argv) {
    return vx::standard_main(argc, argv, [](const vx::Args &a) {
        vx::Plan plan;
        plan.engine       = "langx";
        const int  nodes  = atoi(a.get("nodes", "4").c_str());
        const bool th     = a.thorough();
        plan.rule = "RFC 8259 documents with container top level: every tree with <=" + std::to_string(nodes) +
                    " nodes (depth<=3, arity<=3, 5 leaf kinds, all duplicate-key patterns) x whitespace policies (none, SP at every "
                    "gap and both ends, LF TAB CR SP likewise, SP at exactly one gap); every scalar of the string/numeral pools in 10-14 "
                    "syntactic contexts x 3 policies; parsed as UTF-8, UTF-16, UTF-32 (char32_t and wchar_t) and compared structurally "
                    "with an independent strict reference parser; distinct = distinct documents";
        plan.bounds = "nodes<=" + std::to_string(nodes) + (th ? " pools=thorough" : " pools=quick");
        vx::Stage st;
        st.name   = "docs";
        st.chunks = NCH;
        st.fn     = [nodes, th](int64_t chunk, vx::Ctx &ctx) {
            static langx::Exact<char>     e8;
            static langx::Exact<char16_t> e16;
            static langx::Exact<char32_t> e32;
            static langx::Exact<wchar_t>  ew;
            all_docs(nodes, th, chunk, NCH, true, [&](const Text &t, const std::vector<size_t> &, int) {
                ctx.acc.count("states");
                if (!ctx.next()) {
                    return;
                }
                if (ctx.want_desc()) {
                    ctx.describe(langx::show(t));
                }
                ref::JNode   want;
                ref::JParser rp(t);
                if (!rp.parse(want)) {
                    ctx.fail("harness: generator produced a non-RFC document " + langx::show(t), "reference parser rejects it");
                    return;
                }
                judge<char>(t, want, e8, ctx);
                judge<char16_t>(t, want, e16, ctx);
                judge<char32_t>(t, want, e32, ctx);
                judge<wchar_t>(t, want, ew, ctx);
                ctx.acc.count("distinct");
                ctx.acc.count("transitions", t.size());
                if ((ctx.idx % 5003) == 11) {
                    ctx.acc.sample(langx::show(t));
                }
            });
        };
        plan.stages.push_back(st);
        plan.finish = [nodes, th](vx::Part &p) {
            p.distinct_extra = p.acc.counters["distinct"];
            // oracle for the oracle: python json.loads on the first 40000 generated documents
            std::string path = "build/run/c06_docs." + std::to_string(getpid()) + ".txt";
            FILE       *f    = fopen(path.c_str(), "w");
            int64_t     n    = 0;
            all_docs(nodes, th, 0, 1, true, [&](const Text &t, const std::vector<size_t> &, int) {
                if (n >= 40000 && (n % 7) != 0) {
                    n++;
                    return;
                }
                n++;
                ref::JNode   want;
                ref::JParser rp(t);
                std::string  c = "REJECT";
                if (rp.parse(want)) {
                    c.clear();
                    ref::canon(want, c);
                }
                for (char32_t ch : t) {
                    uint32_t u = ch;
                    fprintf(f, "%02x%02x%02x%02x", u & 0xff, (u >> 8) & 0xff, (u >> 16) & 0xff, (u >> 24) & 0xff);
                }
                fprintf(f, "\t%s\n", c.c_str());
            });
            fclose(f);
            std::string cmd = "python3 tools/json_xcheck.py " + path + " > " + path + ".out 2>&1";
            int         rc  = system(cmd.c_str());
            if (rc != 0) {
                p.harness_error = "reference parser disagrees with python json.loads: " + vx::read_file_tail(path + ".out", 600);
            }
            unlink(path.c_str());
            unlink((path + ".out").c_str());
        };
        plan.assumptions = {"reference parser ref/json_ref.hpp (cross-checked against python3 json.loads on the generated documents)",
                            "glibc strtod is correctly rounded", "numerals beyond the double range are not generated (out of scope)"};
        return plan;
    });
}
