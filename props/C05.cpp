// C05 - parsing any code-unit string as JSON is memory-safe and terminates; result complete or Undefined.
// Engine E2 (langx).  Build variants: asan (redzone directly behind the text) and fast (PROT_NONE page).
#include "json_common.hpp"

using namespace langx;

static Alphabet unit_alphabet(int width) {
    Alphabet a;
    const char *units = "{}[]\":,\\/uD890-+.eEtrfnals \n";
    for (const char *p = units; *p; p++) {
        a.tokens.push_back(Text(1, (unsigned char)*p));
    }
    a.tokens.push_back(Text(1, 0));    // NUL
    a.tokens.push_back(Text(1, 0x01)); // control
    a.tokens.push_back(Text(1, width == 1 ? 0x80 : 0xD800));
    return a;
}

static Alphabet token_alphabet() {
    Alphabet a;
    const char *toks[] = {"{", "}", "[", "]", ",", ":", "\"a\"", "\"", "\"\\n\"", "\"\\u00e9\"", "\"\\uD83D\\uDE00\"",
                          "\"\\uD83D", "\\", "\\u", "\\uD8", "true", "false", "null", "0", "-1", "1.5", "1e5", "1e", "01",
                          "0x1F", " ",
                          // numerals that sit on the converter's windows (19/20 digits, 2^64, long fraction, extreme exponents)
                          "1234567890123456789", "12345678901234567890", "18446744073709551615", "0.12345678901234567890123",
                          "1e308", "1E-320"};
    for (auto t : toks) {
        a.tokens.push_back(T(t));
    }
    a.tokens.push_back(Text(3, 0)); // NUL NUL NUL
    a.add_truncations();
    return a;
}

struct Run {
    Exact<char>     e8;
    Exact<char16_t> e16;
    Exact<char32_t> e32;
    Exact<wchar_t>  ew;
};

template <typename C>
static void judge(const Text &t, Exact<C> &ex, vx::Ctx &ctx, uint64_t &h) {
    JsonOutcome o = parse_one<C>(t, ex, false);
    ctx.acc.count("evals");
    if (o.partial) {
        ctx.fail(std::string(wname<C>()) + " " + show(t), "result is neither Undefined nor complete: " + o.dump);
    }
    h = vx::mix(h ^ vx::hstr(o.undefined ? "U" : o.dump));
}

static void run_text(const Text &t, Run &r, vx::Ctx &ctx, int widths) {
    if (!ctx.next()) {
        return;
    }
    if (ctx.want_desc()) {
        ctx.describe(show(t));
    }
    uint64_t h = 0;
    judge<char>(t, r.e8, ctx, h);
    if (widths > 1) {
        judge<char16_t>(t, r.e16, ctx, h);
        judge<char32_t>(t, r.e32, ctx, h);
        judge<wchar_t>(t, r.ew, ctx, h);
    }
    ctx.acc.outcome(h);
    ledger_ok(ctx, show(t));
    if ((ctx.idx % 200003) == 7) {
        ctx.acc.sample(show(t));
    }
}

int main(int argc, char **argv) {
    return vx::standard_main(argc, argv, [](const vx::Args &a) {
        vx::Plan plan;
        plan.engine = "langx";
        const int nu = atoi(a.get("units", "4").c_str());   // unit strings up to this length
        const int nt = atoi(a.get("tokens", "3").c_str());  // token strings up to this many tokens
        const int dmax = atoi(a.get("depth", "1000").c_str());
        plan.rule = "all strings of <=" + std::to_string(nu) + " code units over a 31-unit JSON alphabet, all strings of <=" +
                    std::to_string(nt) + " tokens over 33 JSON tokens plus every code-unit truncation, nesting families to depth " +
                    std::to_string(dmax) + "; each parsed as char, char16_t, char32_t, wchar_t from an exact-size buffer without "
                    "terminator; distinct = distinct parse outcomes (canonical dump over the 4 widths)";
        plan.bounds = "units<=" + std::to_string(nu) + " tokens<=" + std::to_string(nt) + " depth<=" + std::to_string(dmax);
        static Alphabet au8 = unit_alphabet(1), au16 = unit_alphabet(2), at = token_alphabet();
        {
            vx::Stage st;
            st.name   = "units";
            st.chunks = sigma_chunks(au8, nu, 2);
            st.fn     = [nu](int64_t chunk, vx::Ctx &ctx) {
                static Run r;
                // the wide run uses the 16-bit alphabet's last unit; both alphabets have the same size, so one walk
                sigma_walk(au8, nu, 2, chunk, ctx, [&](const Text &t, int, bool) {
                    if (!ctx.next()) {
                        return;
                    }
                    if (ctx.want_desc()) {
                        ctx.describe(show(t));
                    }
                    uint64_t h = 0;
                    judge<char>(t, r.e8, ctx, h);
                    Text w = t;
                    for (auto &c : w) {
                        if (c == 0x80) {
                            c = 0xD800;
                        }
                    }
                    judge<char16_t>(w, r.e16, ctx, h);
                    judge<char32_t>(w, r.e32, ctx, h);
                    judge<wchar_t>(w, r.ew, ctx, h);
                    ctx.acc.outcome(h);
                    ledger_ok(ctx, show(t));
                    if ((ctx.idx % 200003) == 7) {
                        ctx.acc.sample(show(t));
                    }
                });
            };
            plan.stages.push_back(st);
        }
        {
            vx::Stage st;
            st.name   = "tokens";
            st.chunks = sigma_chunks(at, nt, 2);
            st.fn     = [nt](int64_t chunk, vx::Ctx &ctx) {
                static Run r;
                sigma_walk(at, nt, 2, chunk, ctx, [&](const Text &t, int, bool) { run_text(t, r, ctx, 4); });
            };
            plan.stages.push_back(st);
        }
        {
            // nesting: complete, unclosed, cut at multiples of 97, for arrays, objects and mixed
            static std::vector<int> depths;
            depths.clear();
            for (int d = 1; d <= 64; d++) {
                depths.push_back(d);
            }
            for (int d : {511, 512, 513, 1000, 4096}) {
                if (d <= dmax) {
                    depths.push_back(d);
                }
            }
            vx::Stage st;
            st.name   = "depth";
            st.chunks = (int64_t)depths.size();
            st.hang_s = 60;
            st.fn     = [](int64_t chunk, vx::Ctx &ctx) {
                static Run r;
                int        d = depths[(size_t)chunk];
                for (int kind = 0; kind < 3; kind++) {
                    Text open, close;
                    for (int i = 0; i < d; i++) {
                        bool obj = (kind == 1) || (kind == 2 && (i & 1));
                        open += obj ? T("{\"a\":") : T("[");
                        close = (obj ? T("}") : T("]")) + close;
                    }
                    Text full = open + T("1") + close;
                    ctx.acc.count("states");
                    run_text(full, r, ctx, 4);
                    run_text(open, r, ctx, 4);
                    run_text(open + T("1"), r, ctx, 4);
                    for (size_t cut = 97; cut < full.size(); cut += 97 * (1 + full.size() / 4000)) {
                        ctx.acc.count("transitions");
                        run_text(full.substr(0, cut), r, ctx, 4);
                    }
                    // complete document must be accepted (the property promises >= 512 levels)
                    if (d <= 512 && ctx.only_idx < 0) {
                        JsonOutcome o = parse_one<char>(full, r.e8, false);
                        if (o.undefined) {
                            ctx.fail("depth " + std::to_string(d) + " kind " + std::to_string(kind), "well-formed nesting rejected");
                        }
                    }
                }
            };
            plan.stages.push_back(st);
        }
        plan.assumptions = {"ASan/UBSan (asan variant) or a PROT_NONE page directly behind the text (fast variant) make every "
                            "access outside [content, content+length) fatal; reads before the buffer are only visible to ASan",
                            "stack limit is the default 8 MiB"};
        return plan;
    });
}
