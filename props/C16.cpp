// C16 - every allocation is released exactly once; nothing is used after release.
// The allocation ledger (Qentem's own QENTEM_Q_TEST_H seam) rides on the operation-history searches of C12/C13/C14 and on
// the input spaces of C01/C05, plus a dedicated search over tag-cache lifetimes.  ASan supplies "never used after release".
#include "c14_sys.hpp"
#include "c13_sys.hpp"
#include "value_sys.hpp"
#include "tmpl_common.hpp"
#include "tmpl_gen.hpp"

using Core16 = TemplateCore<char, Value<char>, StringStream<char>>;

// ---------------------------------------------------------------------------------------------------------
// tag-cache lifetimes
static const char *CT[] = {
    "{var:a}-{raw:s}",
    "{math:{var:a}+1}{math:(1+2)*3}",
    "{svar:p,{var:a},{math:1+1},{raw:s}}",
    "{if case=\"{var:a}\" true=\"{var:a}\" false=\"{raw:s}\"}",
    "<if case=\"{var:a}==1\">one<else if case=\"{var:a}>1\">{var:a}<else>{math:0-1}</if>",
    "<loop set=\"b\" value=\"v\">{var:v}<loop set=\"g\" value=\"w\" group=\"y\">{var:w}</loop></loop>",
    "<loop set=\"g\" value=\"v\" group=\"y\" sort=\"descend\">{var:v}:<loop set=\"v\" value=\"w\">{var:w[a]}</loop></loop>",
    "<if case=\"1\"><loop set=\"b\" value=\"v\" sort=\"ascend\">{if case=\"{var:v}>0\" true=\"{var:v}\"}</loop></if>",
    "text only",
    "{var:",
    "<loop set=\"b\" value=\"v\"><if case=\"{var:v}\">{svar:p,{var:v}}</if></loop>{var:zz}",
    "{math:1/0}{var:b[2][a]}",
};
static const char *CV[] = {
    R"({"a":1,"s":"<s>","p":"P{0}{1}{2}","b":[3,0,{"a":"x"}],"g":[{"y":1,"a":2},{"y":2,"a":3},{"y":1,"a":4}]})",
    R"({"a":0,"s":"","p":"none","b":[],"g":[]})",
};
struct CacheSys {
    Array<Tags::TagBit> *A, *B;
    int                  ta = -1, tb = -1; // which template each cache was parsed from (-1: empty)
    Value<char>          v[2];
    CacheSys() {
        A = new Array<Tags::TagBit>();
        B = new Array<Tags::TagBit>();
        for (int i = 0; i < 2; i++) {
            v[i] = JSON::Parse(CV[i], SizeT(strlen(CV[i])));
        }
    }
    ~CacheSys() {
        delete A;
        delete B;
    }
    CacheSys(const CacheSys &) = delete;
    static const std::vector<std::string> &ops() {
        static std::vector<std::string> o = [] {
            std::vector<std::string> x;
            for (size_t i = 0; i < sizeof(CT) / sizeof(CT[0]); i++) {
                x.push_back("A.Reset;Parse#" + std::to_string(i));
            }
            for (const char *s : {"B.Reset;Parse#5", "B=A", "B=move(A)", "A=B", "A=move(B)", "A=A", "B=Array(A)", "B=Array(move(A))", "A.Clear", "A.Reset",
                                  "render A v0", "render A v1", "render B v0", "delete A first", "delete B first", "A.Compress", "A+=B (copy)", "A.Drop(1)"}) {
                x.push_back(s);
            }
            return x;
        }();
        return o;
    }
    static int         num_ops() { return (int)ops().size(); }
    static std::string op_name(int i) { return ops()[(size_t)i]; }
    static std::string fresh(int t, const Value<char> &val) {
        StringStream<char> ss;
        Template::Render(CT[t], SizeT(strlen(CT[t])), val, ss);
        return std::string(ss.First() ? ss.First() : "", ss.Length());
    }
    std::string render_check(Array<Tags::TagBit> &c, int t, int vi, const char *nm) {
        if (t < 0) {
            return "";
        }
        Core16             core{CT[t], SizeT(strlen(CT[t]))};
        StringStream<char> ss;
        core.Render(c, v[vi], ss);
        std::string got(ss.First() ? ss.First() : "", ss.Length());
        std::string want = fresh(t, v[vi]);
        if (got != want) {
            return std::string("render through cache ") + nm + " gives '" + got.substr(0, 120) + "', fresh render '" + want.substr(0, 120) + "'";
        }
        return "";
    }
    bool apply(int i, std::string &err) {
        const std::string n = ops()[(size_t)i];
        if (n.rfind("A.Reset;Parse#", 0) == 0) {
            int t = atoi(n.c_str() + 14);
            A->Reset();
            Core16::Parse(CT[t], SizeT(strlen(CT[t])), *A);
            ta = t;
        } else if (n == "B.Reset;Parse#5") {
            B->Reset();
            Core16::Parse(CT[5], SizeT(strlen(CT[5])), *B);
            tb = 5;
        } else if (n == "B=A") {
            *B = *A;
            tb = ta;
        } else if (n == "B=move(A)") {
            *B = std::move(*A);
            tb = ta;
            ta = -1;
        } else if (n == "A=B") {
            *A = *B;
            ta = tb;
        } else if (n == "A=move(B)") {
            *A = std::move(*B);
            ta = tb;
            tb = -1;
        } else if (n == "A=A") {
            Array<Tags::TagBit> &al = *A;
            *A                      = al;
        } else if (n == "B=Array(A)") {
            Array<Tags::TagBit> c(*A);
            *B = std::move(c);
            tb = ta;
        } else if (n == "B=Array(move(A))") {
            Array<Tags::TagBit> c(std::move(*A));
            *B = std::move(c);
            tb = ta;
            ta = -1;
        } else if (n == "A.Clear") {
            A->Clear();
            ta = -1;
        } else if (n == "A.Reset") {
            A->Reset();
            ta = -1;
        } else if (n == "render A v0" || n == "render A v1") {
            err = render_check(*A, ta, n == "render A v0" ? 0 : 1, "A");
        } else if (n == "render B v0") {
            err = render_check(*B, tb, 0, "B");
        } else if (n == "delete A first") {
            delete A;
            A  = new Array<Tags::TagBit>();
            ta = -1;
        } else if (n == "delete B first") {
            delete B;
            B  = new Array<Tags::TagBit>();
            tb = -1;
        } else if (n == "A.Compress") {
            A->Compress();
        } else if (n == "A+=B (copy)") {
            // only meaningful as a lifetime operation: the combined array is not rendered
            *A += (const Array<Tags::TagBit> &)*B;
            ta = -1;
        } else if (n == "A.Drop(1)") {
            if (A->Size() == 0) {
                return false;
            }
            A->Drop(1);
            ta = -1;
        } else {
            return false;
        }
        if (err.empty()) {
            err = render_check(*A, ta, 0, "A");
        }
        if (err.empty()) {
            err = render_check(*B, tb, 1, "B");
        }
        return true;
    }
    std::string key() { return std::to_string(ta) + "|" + std::to_string(tb) + "|" + std::to_string(A->Size()) + "|" + std::to_string(B->Size()) + "|" + std::to_string(A->Capacity()); }
};

// ---------------------------------------------------------------------------------------------------------
static bool ledger_clean(vx::Ctx &ctx, const std::string &what) {
    vx::Ledger &l = vx::ledger();
    if (l.live != 0 || l.foreign != 0) {
        ctx.fail(what, "after every object was destroyed: live blocks=" + std::to_string(l.live) + " foreign/double releases=" + std::to_string(l.foreign));
        l.clear();
        return false;
    }
    return true;
}

int main(int argc, char **argv) {
    return vx::standard_main(argc, argv, [](const vx::Args &a) {
        vx::Plan   plan;
        const bool th    = a.thorough();
        const int  depth = atoi(a.get("depth", th ? "4" : "3").c_str());
        const int  ju    = atoi(a.get("jsonunits", th ? "5" : "4").c_str());
        const int  tt    = atoi(a.get("tokens", th ? "3" : "2").c_str());
        plan.engine = "seqx";
        plan.rule = "allocation ledger on Memory::Allocate/Deallocate (live set; unknown release = foreign/double release; live blocks when all objects "
                    "are gone = leak) checked between ALL transitions of the operation-history searches (depth " + std::to_string(depth) +
                    ") over Array<int>, Array<Tracked>, String, StringStream, HArray, HList, Value and tag-cache lifetimes (parse 12 templates covering "
                    "every tag kind, copy, move, self-assign, clear, reset, compress, drop, append, destroy in either order, render through either), "
                    "and after every text of the JSON unit space (<=" + std::to_string(ju) + " units, incl. every rejected text) and of the template "
                    "token space (<=" + std::to_string(tt) + " tokens + grammar deviations, incl. every malformed template)";
        plan.bounds = "depth=" + std::to_string(depth) + " jsonunits<=" + std::to_string(ju) + " tokens<=" + std::to_string(tt);
        static seqx::Search<ArraySys<int>>       s_ai;
        static seqx::Search<ArraySys<Tracked>>   s_at;
        static seqx::Search<StringSys<char>>     s_s8;
        static seqx::Search<StreamSys<char>>     s_ss8;
        static seqx::Search<HSys<false>>         s_ha;
        static seqx::Search<HSys<true>>          s_hl;
        static seqx::Search<VSys>                s_v;
        static seqx::Search<CacheSys>            s_c;
        auto add = [&](auto &srch, const char *nm, int d) {
            srch.name         = nm;
            srch.max_depth    = d;
            srch.per_chunk    = 8;
            srch.check_ledger = true;
            srch.max_states   = 400000;
            srch.stage_index  = (int)plan.stages.size();
            plan.stages.push_back(srch.stage());
        };
        add(s_ai, "Array<int>", depth);
        add(s_at, "Array<Tracked>", depth);
        add(s_s8, "String<char>", depth);
        add(s_ss8, "StringStream<char>", depth);
        add(s_ha, "HArray<String,String>", depth - 1);
        add(s_hl, "HList<String>", depth - 1);
        add(s_v, "Value<char>", depth - 1);
        add(s_c, "tag-cache", depth);
        {
            // every JSON text, accepted or rejected
            static langx::Alphabet au;
            au = langx::Alphabet();
            for (const char *p = "{}[]\":,\\/u0-1.etrfnal "; *p; p++) {
                au.tokens.push_back(Text(1, (unsigned char)*p));
            }
            au.tokens.push_back(Text(1, 0));
            vx::Stage st;
            st.name   = "json-texts";
            st.chunks = langx::sigma_chunks(au, ju, 2);
            st.fn     = [ju](int64_t chunk, vx::Ctx &ctx) {
                static langx::Exact<char> ex;
                langx::sigma_walk(au, ju, 2, chunk, ctx, [&](const Text &t, int, bool) {
                    if (!ctx.next()) {
                        return;
                    }
                    if (ctx.want_desc()) {
                        ctx.describe("json " + langx::show(t));
                    }
                    {
                        const char *p = ex.put(t);
                        Value<char> v = JSON::Parse(p, SizeT(t.size()));
                        if (!v.IsUndefined()) {
                            StringStream<char> ss;
                            v.Stringify(ss);
                            ctx.acc.count("accepted");
                        }
                    }
                    ctx.acc.count("evals");
                    ledger_clean(ctx, "json " + langx::show(t));
                });
            };
            plan.stages.push_back(st);
        }
        {
            static tgen::Grammar             G;
            static std::vector<tgen::Tokens> bases;
            tgen::Gen gen(G, 2);
            gen.run();
            bases = gen.out;
            vx::Stage st;
            st.name   = "template-texts";
            st.chunks = (int64_t)((bases.size() + 7) / 8);
            st.fn     = [](int64_t chunk, vx::Ctx &ctx) {
                static ValueSet<char> *vs = nullptr;
                for (size_t bi = (size_t)chunk * 8; bi < bases.size() && bi < ((size_t)chunk + 1) * 8; bi++) {
                    tgen::deviations(G, bases[bi], 1, true, [&](const Text &t) {
                        ctx.acc.count("transitions");
                        if (!ctx.next()) {
                            return;
                        }
                        if (ctx.want_desc()) {
                            ctx.describe("template " + langx::show(t));
                        }
                        {
                            // the value set lives inside the case so that the ledger is empty afterwards
                            ValueSet<char> local;
                            (void)vs;
                            std::string s(t.begin(), t.end());
                            for (size_t vi = 0; vi < 3; vi++) {
                                StringStream<char> ss;
                                Template::Render(s.data(), SizeT(s.size()), local.vals[vi], ss);
                                // and once through an explicit cache that is copied and destroyed first
                                Array<Tags::TagBit> c1;
                                Core16::Parse(s.data(), SizeT(s.size()), c1);
                                Array<Tags::TagBit> c2(c1);
                                c1.Reset();
                                Core16             core{s.data(), SizeT(s.size())};
                                StringStream<char> s2;
                                core.Render(c2, local.vals[vi], s2);
                                if (s2.Length() != ss.Length() || memcmp(s2.First(), ss.First(), ss.Length()) != 0) {
                                    ctx.fail("template " + langx::show(t), "render through a copied cache differs from the direct render");
                                }
                            }
                        }
                        ctx.acc.count("evals");
                        ledger_clean(ctx, "template " + langx::show(t));
                    });
                }
            };
            plan.stages.push_back(st);
        }
        {
            // parsed expression arrays (TemplateCore::ParseExpressions is public): every element assigned to every other one by
            // move and by copy, elements appended to their own array, arrays copied and moved, then everything destroyed
            static const char *EXPRS[] = {"(1+2)*(3+4)+5", "1+2", "{var:a}==abc", "((1))", "(2^(1+1))/(4-(2*1))", "7"};
            vx::Stage st;
            st.name   = "expression-arrays";
            st.chunks = 6;
            st.fn     = [](int64_t chunk, vx::Ctx &ctx) {
                const char *ex  = EXPRS[chunk];
                const SizeT len = SizeT(strlen(ex));
                const SizeT n   = Core16::ParseExpressions(ex, len).Size();
                for (SizeT i = 0; i < n; i++) {
                    for (SizeT j = 0; j < n; j++) {
                        for (int how = 0; how < 4; how++) {
                            if (!ctx.next()) {
                                continue;
                            }
                            const std::string key = std::string("expressions of '") + ex + "': e[" + std::to_string(i) + "] " +
                                                    (how == 0 ? "= move(e[" : (how == 1 ? "= copy of e[" : (how == 2 ? "= move(other[" : "; e += e["))) + std::to_string(j) + "]" +
                                                    (how == 3 ? "" : ")");
                            if (ctx.want_desc()) {
                                ctx.describe(key);
                            }
                            ctx.acc.count("states");
                            {
                                Array<QExpression> e = Core16::ParseExpressions(ex, len);
                                Array<QExpression> o = Core16::ParseExpressions(ex, len);
                                if (how == 0) {
                                    if (i != j) {
                                        e.Storage()[i] = static_cast<QExpression &&>(e.Storage()[j]);
                                    }
                                } else if (how == 1) {
                                    QExpression c(e.Storage()[j]);
                                    e.Storage()[i] = static_cast<QExpression &&>(c);
                                } else if (how == 2) {
                                    e.Storage()[i] = static_cast<QExpression &&>(o.Storage()[j]);
                                } else {
                                    e += e.Storage()[j];
                                }
                                Array<QExpression> c2(e);
                                Array<QExpression> m2(static_cast<Array<QExpression> &&>(o));
                            }
                            ctx.acc.count("evals");
                            ledger_clean(ctx, key);
                        }
                    }
                }
            };
            plan.stages.push_back(st);
        }
        plan.evals_counter = "transitions";
        plan.finish = [](vx::Part &p) {
            p.evaluations += p.acc.counters["evals"];
            p.distinct_extra = p.acc.counters["states"] + p.acc.counters["evals"];
            p.bounds += " | " + s_ai.summary() + " | " + s_at.summary() + " | " + s_s8.summary() + " | " + s_ss8.summary() + " | " + s_ha.summary() + " | " +
                        s_hl.summary() + " | " + s_v.summary() + " | " + s_c.summary();
        };
        plan.assumptions = {"the ledger sees Memory::Allocate/Deallocate (the library's only allocation path); use-after-release is the ASan variant's job",
                            "the harness's own Detach+free operations release through Memory::Deallocate"};
        return plan;
    });
}
