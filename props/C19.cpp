// C19 - BigInt holds the exact mathematical integer after every operation that fits.
// Engine E1 on small words (complete transition relation of BigInt<uint8,16>) + breadth-first search over operation
// sequences for the larger instantiations + exhaustive / lattice checks of the double-word helpers.
#include "vx_ledger.hpp"
#include "vx_main.hpp"
#include "seqx.hpp"
#include "bigref.hpp"
#include "BigInt.hpp"
#include "DigitUtils.hpp"
#include <unordered_set>
#include <deque>
#include <utility>

using namespace Qentem;
using u128 = unsigned __int128;

static std::string hex128(u128 v) {
    char b[40];
    snprintf(b, sizeof b, "%llx%016llx", (unsigned long long)(v >> 64), (unsigned long long)v);
    return b;
}

// ---------------------------------------------------------------------------------------------------------
// Generic instance wrapper: the object lives in an exact-size heap block (ASan: redzone right behind it).
template <typename W, SizeT32 Width>
struct Inst {
    using B = BigInt<W, Width>;
    static constexpr unsigned WB    = sizeof(W) * 8;
    static constexpr unsigned WORDS = B::MaxIndex() + 1;
    B *p;
    Inst() {
        void *m = malloc(sizeof(B));
        memset(m, 0xAB, sizeof(B));
        p = new (m) B();
    }
    Inst(const Inst &o) {
        void *m = malloc(sizeof(B));
        memcpy(m, (void *)o.p, sizeof(B)); // raw copy: independent of BigInt's own copy operations
        p = (B *)m;
    }
    Inst &operator=(const Inst &) = delete;
    ~Inst() { free((void *)p); }
    std::string key() const {
        std::string k((const char *)p->Storage(), WORDS * sizeof(W));
        k += char(p->Index());
        return k;
    }
    // comparison with the reference through the public read API; returns "" or the difference.
    // Words above Index() are not part of the value and are not compared (they are part of the state key, so a
    // later operation that trusts them is found by the search).
    std::string diff(const ref::Big &r) const {
        char b[200];
        const unsigned idx = p->Index();
        if (idx >= WORDS) {
            snprintf(b, sizeof b, "Index() is %u, outside the %u words", idx, WORDS);
            return b;
        }
        for (unsigned i = 0; i < WORDS; i++) {
            uint64_t have = (i <= idx) ? (uint64_t)p->Storage()[i] : 0;
            if (have != r.word(i, WB)) {
                snprintf(b, sizeof b, "word %u of the value (Index %u) is %llx, exact value 0x%s", i, idx, (unsigned long long)have, r.hex().c_str());
                return b;
            }
        }
        if (p->IsZero() != r.is_zero() || p->NotZero() == r.is_zero()) {
            snprintf(b, sizeof b, "IsZero() is %d for the value 0x%s (Index %u)", (int)p->IsZero(), r.hex().c_str(), idx);
            return b;
        }
        if ((uint64_t)p->Number() != r.word(0, WB)) {
            return "Number() is not the low word";
        }
        if (!r.is_zero()) {
            if (p->FindLastBit() != r.bitlen() - 1) {
                snprintf(b, sizeof b, "FindLastBit() %u, exact %zu (value 0x%s)", (unsigned)p->FindLastBit(), r.bitlen() - 1, r.hex().c_str());
                return b;
            }
            if (p->FindFirstBit() != r.lowbit()) {
                snprintf(b, sizeof b, "FindFirstBit() %u, exact %zu (value 0x%s)", (unsigned)p->FindFirstBit(), r.lowbit(), r.hex().c_str());
                return b;
            }
        }
        // narrowing conversions
        if ((uint64_t)(uint8_t)(*p) != (r.word(0, 8))) {
            return "conversion to 8 bits wrong";
        }
        if ((uint64_t)(uint16_t)(*p) != (r.word(0, 16))) {
            return "conversion to 16 bits wrong";
        }
        if ((uint64_t)(uint32_t)(*p) != (r.word(0, 32))) {
            return "conversion to 32 bits wrong";
        }
        if ((uint64_t)(*p) != (r.word(0, 64))) {
            snprintf(b, sizeof b, "conversion to 64 bits gives %llx (value 0x%s)", (unsigned long long)(uint64_t)(*p), r.hex().c_str());
            return b;
        }
        return "";
    }
    std::string cmp_diff(const ref::Big &r, W x) const {
        ref::Big o((u128)x);
        int      c = r.cmp(o);
        const B &v = *p;
        bool     ok = ((v < x) == (c < 0)) && ((v <= x) == (c <= 0)) && ((v > x) == (c > 0)) && ((v >= x) == (c >= 0)) &&
                  ((v == x) == (c == 0)) && ((v != x) == (c != 0)) && ((x < v) == (c > 0)) && ((x <= v) == (c >= 0)) &&
                  ((x > v) == (c < 0)) && ((x >= v) == (c <= 0)) && ((x == v) == (c == 0)) && ((x != v) == (c != 0));
        if (!ok) {
            return "comparison with " + std::to_string((unsigned long long)x) + " disagrees for value 0x" + r.hex();
        }
        return "";
    }
};

struct Op {
    char     kind; // '=' 'W'(wide set) '+' '-' '*' '/' '<' '>' '|' '&' 'C'(copy) 'M'(move) 'A'(wide add) 'S'(wide sub) 'O'(wide or)
    uint64_t arg;
    std::string str() const {
        char b[48];
        snprintf(b, sizeof b, "%c0x%llx", kind, (unsigned long long)arg);
        return b;
    }
};

// applies op; returns false when the exact result does not fit (transition skipped: outside the property)
template <typename W, SizeT32 Width>
static bool apply(Inst<W, Width> &x, ref::Big &r, const Op &op, std::string &err) {
    using I              = Inst<W, Width>;
    using B              = typename I::B;
    constexpr unsigned WB   = I::WB;
    constexpr size_t   BITS = (size_t)I::WORDS * WB;
    using Wide              = typename std::conditional<(WB < 64), uint64_t, u128>::type;
    const W                 w = (W)op.arg;
    switch (op.kind) {
        case '=':
            *x.p = w;
            r    = ref::Big((u128)w);
            return true;
        case 'W': { // a wider operand than the word type
            if (WB >= 64) {
                return false;
            }
            uint64_t v = op.arg;
            if (ref::Big((u128)v).bitlen() > BITS) {
                return false;
            }
            *x.p = v;
            r    = ref::Big((u128)v);
            return true;
        }
        case '+': {
            ref::Big t = r;
            t.add((u128)w);
            if (t.bitlen() > BITS) {
                return false;
            }
            *x.p += w;
            r = t;
            return true;
        }
        case 'A': {
            if (WB >= 64) {
                return false;
            }
            ref::Big t = r;
            t.add((u128)op.arg);
            if (t.bitlen() > BITS) {
                return false;
            }
            *x.p += (uint64_t)op.arg;
            r = t;
            return true;
        }
        case '-': {
            ref::Big t = r;
            if (!t.sub((u128)w)) {
                return false;
            }
            *x.p -= w;
            r = t;
            return true;
        }
        case 'S': {
            if (WB >= 64) {
                return false;
            }
            ref::Big t = r;
            if (!t.sub((u128)op.arg)) {
                return false;
            }
            *x.p -= (uint64_t)op.arg;
            r = t;
            return true;
        }
        case '*': {
            ref::Big t = r;
            t.mul(w);
            if (t.bitlen() > BITS) {
                return false;
            }
            *x.p *= w;
            r = t;
            return true;
        }
        case '/': {
            if (w == 0) {
                return false;
            }
            ref::Big t   = r;
            uint64_t rem = t.divmod(w);
            W        got = x.p->Divide(w);
            r            = t;
            if ((uint64_t)got != rem) {
                char b[160];
                snprintf(b, sizeof b, "remainder %llx, exact %llx", (unsigned long long)got, (unsigned long long)rem);
                err = b;
            }
            return true;
        }
        case '<': {
            ref::Big t = r;
            t.shl((size_t)op.arg);
            if (t.bitlen() > BITS) {
                return false;
            }
            *x.p <<= (SizeT32)op.arg;
            r = t;
            return true;
        }
        case '>': {
            r.shr((size_t)op.arg);
            *x.p >>= (SizeT32)op.arg;
            return true;
        }
        case '|': {
            r.or_low((u128)w);
            *x.p |= w;
            return true;
        }
        case 'O': {
            if (WB >= 64) {
                return false;
            }
            ref::Big t = r;
            t.or_low((u128)op.arg);
            if (t.bitlen() > BITS) {
                return false;
            }
            r = t;
            *x.p |= (uint64_t)op.arg;
            return true;
        }
        case 'N': { // wide And: the result always fits
            if (WB >= 64) {
                return false;
            }
            ref::Big t((u128)(r.word(0, 64) & op.arg));
            r = t;
            *x.p &= (uint64_t)op.arg;
            return true;
        }
        case '&': {
            ref::Big t((u128)(r.word(0, WB) & (uint64_t)w));
            r = t;
            *x.p &= w;
            return true;
        }
        case 'c': { // copy-assign from another BigInt that holds a (small) word value
            B t(w);
            *x.p = t;
            r    = ref::Big((u128)w);
            return true;
        }
        case 'm': { // move-assign from another BigInt that holds a word value
            B t(w);
            *x.p = std::move(t);
            r    = ref::Big((u128)w);
            if (!t.IsZero()) {
                err = "moved-from BigInt is not zero";
            }
            return true;
        }
        case 'C': { // copy construct + copy assign over a dirty target
            B  c(*x.p);
            B  d((W)0x5A);
            d <<= (SizeT32)(op.arg % BITS);
            d    = c;
            *x.p = d;
            return true;
        }
        case 'M': {
            B c(std::move(*x.p));
            if (!x.p->IsZero() || x.p->Index() != 0) {
                err = "moved-from BigInt is not zero";
            }
            *x.p = std::move(c);
            if (!c.IsZero() || c.Index() != 0) {
                err = "moved-from BigInt is not zero";
            }
            return true;
        }
    }
    return false;
}

template <typename W>
static std::vector<uint64_t> operands() {
    constexpr unsigned wb = sizeof(W) * 8;
    const uint64_t     all = (~0ULL) >> (64 - wb);
    std::vector<uint64_t> v = {0, 1, 2, 3, 5, 10, all, all - 1, 1ULL << (wb - 1), (1ULL << (wb - 1)) + 1, (1ULL << (wb - 1)) - 1,
                               1ULL << (wb / 2), (1ULL << (wb / 2)) + 1, (1ULL << (wb / 2)) - 1, (all / 3) | (1ULL << (wb - 1)) | 1,
                               (all / 5) * 4 + 1, all - 0xF};
    if (wb == 64) {
        v.push_back(0xFFFFFFFF00000001ULL);
        v.push_back(0x8000000000000003ULL);
        v.push_back(7450580596923828125ULL);  // 5^27
        v.push_back(10000000000000000000ULL); // 10^19
    } else if (wb == 32) {
        v.push_back(1220703125U);  // 5^13
        v.push_back(1000000000U);
    }
    return v;
}

template <typename W, SizeT32 Width>
static std::vector<Op> alphabet() {
    using I = Inst<W, Width>;
    std::vector<Op> ops;
    constexpr unsigned WB   = I::WB;
    constexpr unsigned BITS = I::WORDS * WB;
    auto               os   = operands<W>();
    for (char k : {'=', '+', '-', '*', '/', '|', '&', 'c', 'm'}) {
        for (uint64_t o : os) {
            ops.push_back({k, o});
        }
    }
    for (unsigned s : {0u, 1u, WB - 1, WB, WB + 1, 2 * WB, 2 * WB + 3, BITS - WB, BITS - 1, BITS}) {
        ops.push_back({'<', s});
        ops.push_back({'>', s});
    }
    if (WB < 64) {
        for (uint64_t o : {0x1FFULL, 0x10000ULL, 0xFFFFFFFFULL, 0x100000001ULL, 0xFFFFFFFFFFFFFFFFULL, 0x8000000000000000ULL}) {
            ops.push_back({'W', o});
            ops.push_back({'A', o});
            ops.push_back({'S', o});
            ops.push_back({'O', o});
            ops.push_back({'N', o});
        }
    }
    ops.push_back({'C', 7});
    ops.push_back({'M', 0});
    return ops;
}

// System for the seqx engine: one BigInt instance + the reference value.
template <typename W, SizeT32 Width, bool Full>
struct BSys {
    using I = Inst<W, Width>;
    I        x;
    ref::Big r;
    static const std::vector<Op> &ops() {
        static std::vector<Op> o = [] {
            if (!Full) {
                return alphabet<W, Width>();
            }
            // complete alphabet of the 8-bit instantiation: every operand, every shift, wide operands on a stride
            std::vector<Op> v;
            for (char k : {'=', '+', '-', '*', '/', '|', '&', 'c', 'm'}) {
                for (unsigned a = 0; a < 256; a++) {
                    v.push_back({k, a});
                }
            }
            for (unsigned sft = 0; sft < 20; sft++) {
                v.push_back({'<', sft});
                v.push_back({'>', sft});
            }
            for (char k : {'W', 'A', 'S', 'O', 'N'}) {
                for (unsigned a = 0; a < 65536; a += 251) {
                    v.push_back({k, a});
                }
                v.push_back({k, 65535});
                v.push_back({k, 256});
            }
            v.push_back({'N', 0xFFFFFFFFFFFFFFFFULL});
            v.push_back({'N', 0x10000ULL});
            v.push_back({'N', 0xFF00FF00FF00ULL});
            v.push_back({'C', 7});
            v.push_back({'M', 0});
            return v;
        }();
        return o;
    }
    static int         num_ops() { return (int)ops().size(); }
    static std::string op_name(int i) { return ops()[(size_t)i].str(); }
    bool               apply(int i, std::string &err) {
        if (!::apply(x, r, ops()[(size_t)i], err)) {
            return false;
        }
        if (err.empty()) {
            err = x.diff(r);
        }
        if (err.empty()) {
            static const std::vector<uint64_t> cm = operands<W>();
            for (uint64_t c : cm) {
                err = x.cmp_diff(r, (W)c);
                if (!err.empty()) {
                    break;
                }
            }
        }
        return true;
    }
    std::string key() { return x.key(); }
};

// DoubleSize helpers ---------------------------------------------------------------------------------------
template <typename W>
static void ds_case(W hi, W lo, W d, vx::Ctx &ctx, const char *nm) {
    constexpr unsigned wb  = sizeof(W) * 8;
    u128               num = ((u128)hi << wb) | lo;
    u128               q = num / d, rem = num % d;
    W                  h = hi, l = lo;
    SizeT32            shift = (wb == 64) ? ((wb - 1U) - Platform::FindLastBit(d)) : 0U;
    DoubleSize<W, wb>::Divide(h, l, d, shift);
    ctx.acc.count("evals");
    if ((u128)h != rem || (u128)l != (q & (((u128)1 << wb) - 1))) {
        ctx.fail(std::string(nm) + " Divide hi=" + hex128(hi) + " lo=" + hex128(lo) + " divisor=" + hex128(d),
                 "quotient low word " + hex128(l) + " remainder " + hex128(h) + ", exact " + hex128(q & (((u128)1 << wb) - 1)) + " rem " + hex128(rem));
    }
}
template <typename W>
static void ds_mul(W a, W b, vx::Ctx &ctx, const char *nm) {
    constexpr unsigned wb = sizeof(W) * 8;
    u128               p  = (u128)a * b;
    W                  n  = a;
    W                  hi = DoubleSize<W, wb>::Multiply(n, b);
    ctx.acc.count("evals");
    if ((u128)n != (p & (((u128)1 << wb) - 1)) || (u128)hi != (p >> wb)) {
        ctx.fail(std::string(nm) + " Multiply " + hex128(a) + " * " + hex128(b), "got hi " + hex128(hi) + " lo " + hex128(n) + ", exact " + hex128(p));
    }
}

template <typename W>
static std::vector<W> lattice() {
    constexpr unsigned wb  = sizeof(W) * 8;
    const uint64_t     all = (~0ULL) >> (64 - wb);
    std::vector<W>     v;
    for (uint64_t x : operands<W>()) {
        v.push_back((W)x);
    }
    for (unsigned k = 0; k < wb; k += (wb > 16 ? 7 : 3)) {
        v.push_back((W)(1ULL << k));
        v.push_back((W)((1ULL << k) | 1));
        v.push_back((W)(all >> k));
        v.push_back((W)(all << k));
    }
    std::sort(v.begin(), v.end());
    v.erase(std::unique(v.begin(), v.end()), v.end());
    return v;
}

int main(int argc, char **argv) {
    return vx::standard_main(argc, argv, [](const vx::Args &a) {
        vx::Plan   plan;
        const bool th = a.thorough();
        const int  d1 = atoi(a.get("depth", th ? "5" : "4").c_str());
        const int  u8depth = atoi(a.get("u8depth", "-1").c_str());
        const int  dspan = atoi(a.get("dspan", th ? "65536" : "4096").c_str());
        plan.engine = "seqx";
        plan.rule = "BigInt<uint8,16>: breadth-first search to the FIXED POINT over every reachable internal state (words+index) with the "
                    "complete alphabet {=,+=,-=,*=,/=,|=,&= with all 256 operands; shifts 0..19; wide set/add/sub/or; copy; move}; BigInt<uint8,24>,<uint8,32>,<uint16,64>,<uint32,128>,<uint64,128>,<uint64,256>,<uint64,2048>: "
                    "breadth-first over operation sequences to depth " + std::to_string(d1) + " over boundary operands/shifts with canonical "
                    "state dedup; DoubleSize<uint8,8> exhaustive, <uint16>/<uint32>/<uint64> boundary lattices, all divisors in "
                    "[2^63, 2^63+" + std::to_string(dspan) + ") and the top " + std::to_string(dspan) + "; reference: schoolbook bigint / "
                    "unsigned __int128; results that do not fit the width are skipped";
        plan.bounds = "depth=" + std::to_string(d1) + " dspan=" + std::to_string(dspan);
        static seqx::Search<BSys<uint8_t, 16, true>>     s_u8_16;
        static seqx::Search<BSys<uint8_t, 24, false>>    s_u8_24;
        static seqx::Search<BSys<uint8_t, 32, false>>    s_u8_32;
        static seqx::Search<BSys<uint16_t, 64, false>>   s_u16_64;
        static seqx::Search<BSys<uint32_t, 128, false>>  s_u32_128;
        static seqx::Search<BSys<uint64_t, 128, false>>  s_u64_128;
        static seqx::Search<BSys<uint64_t, 256, false>>  s_u64_256;
        static seqx::Search<BSys<uint64_t, 2048, false>> s_u64_2048;
        auto add = [&](auto &srch, const char *nm, int depth, size_t per_chunk) {
            srch.name        = nm;
            srch.max_depth   = depth;
            srch.per_chunk   = per_chunk;
            srch.stage_index = (int)plan.stages.size();
            plan.stages.push_back(srch.stage());
        };
        add(s_u8_16, "BigInt<uint8,16>", u8depth, 64); // -1: to the fixed point
        add(s_u8_24, "BigInt<uint8,24>", th ? d1 : d1 + 1, 32); // depth 5 in both tiers (depth 6 runs into the state cap)
        add(s_u8_32, "BigInt<uint8,32>", d1, 32);
        add(s_u16_64, "BigInt<uint16,64>", d1, 32);
        add(s_u32_128, "BigInt<uint32,128>", d1, 32);
        add(s_u64_128, "BigInt<uint64,128>", d1, 32);
        add(s_u64_256, "BigInt<uint64,256>", d1, 32);
        add(s_u64_2048, "BigInt<uint64,2048>", d1 - 1, 32);
        {
            vx::Stage st;
            st.name   = "doublesize-u8-exhaustive";
            st.chunks = 255;
            st.fn     = [](int64_t chunk, vx::Ctx &ctx) {
                if (!ctx.next()) {
                    return;
                }
                uint8_t d = (uint8_t)(chunk + 1);
                if (ctx.want_desc()) {
                    ctx.describe("DoubleSize<uint8,8> divisor " + std::to_string(d));
                }
                for (unsigned hi = 0; hi < d; hi++) {
                    for (unsigned lo = 0; lo < 256; lo++) {
                        ds_case<uint8_t>((uint8_t)hi, (uint8_t)lo, d, ctx, "DoubleSize<uint8>");
                    }
                }
                for (unsigned b = 0; b < 256; b++) {
                    ds_mul<uint8_t>(d, (uint8_t)b, ctx, "DoubleSize<uint8>");
                }
                ds_mul<uint8_t>(0, d, ctx, "DoubleSize<uint8>");
                ctx.acc.count("states");
            };
            plan.stages.push_back(st);
        }
        {
            vx::Stage st;
            st.name   = "doublesize-lattices";
            st.chunks = 64;
            st.fn     = [dspan](int64_t chunk, vx::Ctx &ctx) {
                if (!ctx.next()) {
                    return;
                }
                if (ctx.want_desc()) {
                    ctx.describe("DoubleSize lattices chunk " + std::to_string(chunk));
                }
                int64_t n = 0;
                auto    l64 = lattice<uint64_t>();
                auto    l32 = lattice<uint32_t>();
                auto    l16 = lattice<uint16_t>();
                for (uint64_t d : l64) {
                    if (d == 0 || (n++ % 64) != chunk) {
                        continue;
                    }
                    for (uint64_t hi : l64) {
                        if (hi >= d) {
                            continue;
                        }
                        for (uint64_t lo : l64) {
                            ds_case<uint64_t>(hi, lo, d, ctx, "DoubleSize<uint64>");
                        }
                    }
                    for (uint64_t b : l64) {
                        ds_mul<uint64_t>(d, b, ctx, "DoubleSize<uint64>");
                    }
                    ctx.acc.count("states");
                }
                for (uint32_t d : l32) {
                    if (d == 0 || (n++ % 64) != chunk) {
                        continue;
                    }
                    for (uint32_t hi : l32) {
                        if (hi >= d) {
                            continue;
                        }
                        for (uint32_t lo : l32) {
                            ds_case<uint32_t>(hi, lo, d, ctx, "DoubleSize<uint32>");
                        }
                    }
                    for (uint32_t b : l32) {
                        ds_mul<uint32_t>(d, b, ctx, "DoubleSize<uint32>");
                    }
                }
                for (uint16_t d : l16) {
                    if (d == 0 || (n++ % 64) != chunk) {
                        continue;
                    }
                    for (uint16_t hi : l16) {
                        if (hi >= d) {
                            continue;
                        }
                        for (uint16_t lo : l16) {
                            ds_case<uint16_t>(hi, lo, d, ctx, "DoubleSize<uint16>");
                        }
                    }
                    for (uint16_t b : l16) {
                        ds_mul<uint16_t>(d, b, ctx, "DoubleSize<uint16>");
                    }
                }
                // every divisor in [2^63, 2^63+span) and the top span, with a small set of dividends
                const uint64_t his[] = {0, 1, 2, 0x7FFFFFFFFFFFFFFFULL, 0x8000000000000000ULL, 0xFFFFFFFFFFFFFFFEULL, 0x123456789ABCDEF0ULL};
                const uint64_t los[] = {0, 1, 0xFFFFFFFFFFFFFFFFULL, 0x8000000000000000ULL, 0x7FFFFFFFFFFFFFFFULL, 0xFEDCBA9876543210ULL};
                for (int64_t k = chunk; k < dspan; k += 64) {
                    for (uint64_t d : {0x8000000000000000ULL + (uint64_t)k, 0xFFFFFFFFFFFFFFFFULL - (uint64_t)k,
                                       0xC000000000000000ULL + (uint64_t)k * 2 + 1}) {
                        for (uint64_t hi : his) {
                            uint64_t h = hi % d;
                            for (uint64_t lo : los) {
                                ds_case<uint64_t>(h, lo, d, ctx, "DoubleSize<uint64>");
                            }
                            ds_case<uint64_t>(d - 1, 0xFFFFFFFFFFFFFFFFULL, d, ctx, "DoubleSize<uint64>");
                        }
                    }
                }
            };
            plan.stages.push_back(st);
        }
        plan.evals_counter = "transitions";
        plan.finish = [u8depth](vx::Part &p) {
            p.evaluations += p.acc.counters["evals"];
            p.distinct_extra = p.acc.counters["states"];
            p.bounds += " | " + s_u8_16.summary() + " | " + s_u8_24.summary() + " | " + s_u8_32.summary() + " | " + s_u16_64.summary() +
                        " | " + s_u32_128.summary() + " | " + s_u64_128.summary() + " | " + s_u64_256.summary() + " | " + s_u64_2048.summary();
            if (u8depth < 0 && !s_u8_16.frontier.empty() && p.exhaustive) {
                p.exhaustive = false;
            }
        };
        plan.assumptions = {"transitions whose exact result does not fit the declared width are skipped (property scope)",
                            "reference: ref/bigref.hpp schoolbook arithmetic and unsigned __int128",
                            "intra-object overruns of the word array are visible through UBSan bounds (asan variant) and the Index()/value invariants"};
        return plan;
    });
}
