// C11 - every finite double survives format(17 significant digits) -> parse bit-for-bit; floats survive 9 digits.
#include "vx_ledger.hpp"
#include "vx_main.hpp"
#include "StringStream.hpp"
#include "Digit.hpp"
#include <cmath>
#include <cinttypes>

using namespace Qentem;

#include "mant_patterns.hpp"

static void rt_double(uint64_t bits, vx::Ctx &ctx) {
    double d;
    memcpy(&d, &bits, 8);
    if (!std::isfinite(d)) {
        return;
    }
    StringStream<char> ss;
    Digit::NumberToString(ss, d, Digit::RealFormatInfo{17U});
    QNumber64   n;
    SizeT       off = 0;
    QNumberType t   = Digit::StringToNumber(n, ss.First(), off, ss.Length());
    ctx.acc.count("evals");
    uint64_t back = 0;
    bool     ok   = (off == ss.Length());
    if (t == QNumberType::Real) {
        back = n.Natural;
    } else if (t == QNumberType::Natural) {
        double x = (double)n.Natural;
        memcpy(&back, &x, 8);
    } else if (t == QNumberType::Integer) {
        double x = (double)n.Integer;
        memcpy(&back, &x, 8);
    } else {
        ok = false;
    }
    if (!ok || back != bits) {
        char key[64], det[300];
        snprintf(key, sizeof key, "double bits=%016" PRIx64, bits);
        snprintf(det, sizeof det, "%.17g formatted as '%.*s' parsed back as type %d bits %016" PRIx64 " (consumed %u/%u)", d,
                 (int)ss.Length(), ss.First(), (int)t, back, (unsigned)off, (unsigned)ss.Length());
        ctx.fail(key, det);
    }
}

static void rt_float(uint32_t bits, vx::Ctx &ctx) {
    float f;
    memcpy(&f, &bits, 4);
    if (!std::isfinite(f)) {
        return;
    }
    StringStream<char> ss;
    Digit::NumberToString(ss, f, Digit::RealFormatInfo{9U});
    QNumber64   n;
    SizeT       off = 0;
    QNumberType t   = Digit::StringToNumber(n, ss.First(), off, ss.Length());
    ctx.acc.count("evals");
    double back = 0;
    bool   ok   = (off == ss.Length());
    if (t == QNumberType::Real) {
        back = n.Real;
    } else if (t == QNumberType::Natural) {
        back = (double)n.Natural;
    } else if (t == QNumberType::Integer) {
        back = (double)n.Integer;
    } else {
        ok = false;
    }
    float    fb = (float)back;
    uint32_t bb;
    memcpy(&bb, &fb, 4);
    if (!ok || bb != bits) {
        char key[64], det[300];
        snprintf(key, sizeof key, "float bits=%08x", bits);
        snprintf(det, sizeof det, "%.9g formatted as '%.*s' parsed back as %.17g -> float bits %08x (type %d, consumed %u/%u)",
                 (double)f, (int)ss.Length(), ss.First(), back, bb, (int)t, (unsigned)off, (unsigned)ss.Length());
        ctx.fail(key, det);
    }
}

int main(int argc, char **argv) {
    return vx::standard_main(argc, argv, [](const vx::Args &a) {
        vx::Plan   plan;
        const bool th    = a.thorough();
        const int  fbits = atoi(a.get("floatbits", th ? "32" : "24").c_str());
        const int  hbits = atoi(a.get("hibits", th ? "32" : "26").c_str()); // doubles with zero low word: top hbits bits enumerated
        plan.engine = "numx";
        plan.rule = "doubles: 64 mantissa patterns x 2047 exponents x sign; +-2 ulp around every power of two and every power of ten "
                    "1e-323..1e308; subnormals 2^k, 2^k+-1; +-0, max; all doubles whose low " + std::to_string(64 - hbits) +
                    " bits are zero; floats: all bit patterns whose low " + std::to_string(32 - fbits) + " bits are zero (all 2^32 in "
                    "the thorough tier); oracle: bit equality; every lattice point is distinct";
        plan.bounds = "floatbits=" + std::to_string(fbits) + " hibits=" + std::to_string(hbits);
        {
            vx::Stage st;
            st.name   = "double-lattice";
            st.chunks = 2047;
            st.fn     = [](int64_t chunk, vx::Ctx &ctx) {
                for (int pi = 0; pi < 64; pi++) {
                    for (int sign = 0; sign < 2; sign++) {
                        if (!ctx.next()) {
                            continue;
                        }
                        uint64_t bits = ((uint64_t)sign << 63) | ((uint64_t)chunk << 52) | MANT[pi];
                        if (ctx.want_desc()) {
                            char b[64];
                            snprintf(b, sizeof b, "double bits=%016" PRIx64, bits);
                            ctx.describe(b);
                        }
                        ctx.acc.count("states");
                        rt_double(bits, ctx);
                    }
                }
                // neighbours of the power of two of this binade
                for (int d = -2; d <= 2; d++) {
                    if (!ctx.next()) {
                        continue;
                    }
                    uint64_t bits = ((uint64_t)chunk << 52) + (uint64_t)(int64_t)d;
                    if (ctx.want_desc()) {
                        char b[64];
                        snprintf(b, sizeof b, "double bits=%016" PRIx64, bits);
                        ctx.describe(b);
                    }
                    ctx.acc.count("states");
                    rt_double(bits, ctx);
                }
            };
            plan.stages.push_back(st);
        }
        {
            vx::Stage st;
            st.name   = "powers-of-ten-and-subnormals";
            st.chunks = 1;
            st.fn     = [](int64_t, vx::Ctx &ctx) {
                for (int e = -323; e <= 308; e++) {
                    char b[32];
                    snprintf(b, sizeof b, "1e%d", e);
                    double   d = strtod(b, nullptr);
                    uint64_t bits;
                    memcpy(&bits, &d, 8);
                    for (int k = -2; k <= 2; k++) {
                        if (!ctx.next()) {
                            continue;
                        }
                        ctx.acc.count("states");
                        rt_double(bits + (uint64_t)(int64_t)k, ctx);
                        rt_double((bits + (uint64_t)(int64_t)k) | 0x8000000000000000ULL, ctx);
                    }
                }
                for (int k = 0; k < 52; k++) {
                    for (int d = -1; d <= 1; d++) {
                        if (!ctx.next()) {
                            continue;
                        }
                        ctx.acc.count("states");
                        rt_double((1ULL << k) + (uint64_t)(int64_t)d, ctx);
                    }
                }
                rt_double(0, ctx);
                rt_double(0x8000000000000000ULL, ctx);
                rt_double(0x7FEFFFFFFFFFFFFFULL, ctx);
                rt_double(0xFFEFFFFFFFFFFFFFULL, ctx);
                ctx.acc.sample("double bits=7fefffffffffffff (DBL_MAX)");
            };
            plan.stages.push_back(st);
        }
        {
            vx::Stage st;
            st.name   = "doubles-zero-low-word";
            st.chunks = 4096;
            st.fn     = [hbits](int64_t chunk, vx::Ctx &ctx) {
                const uint64_t n = 1ULL << (hbits - 12);
                for (uint64_t i = 0; i < n; i++) {
                    if (!ctx.next()) {
                        continue;
                    }
                    uint64_t bits = ((uint64_t)chunk << 52) | (i << (64 - hbits));
                    if (ctx.want_desc()) {
                        char b[64];
                        snprintf(b, sizeof b, "double bits=%016" PRIx64, bits);
                        ctx.describe(b);
                    }
                    ctx.acc.count("states");
                    rt_double(bits, ctx);
                }
            };
            plan.stages.push_back(st);
        }
        {
            vx::Stage st;
            st.name   = "floats";
            st.chunks = 4096;
            st.fn     = [fbits](int64_t chunk, vx::Ctx &ctx) {
                const uint32_t n = 1u << (fbits - 12);
                for (uint32_t i = 0; i < n; i++) {
                    if (!ctx.next()) {
                        continue;
                    }
                    uint32_t bits = ((uint32_t)chunk << 20) | (i << (32 - fbits));
                    if (ctx.want_desc()) {
                        char b[64];
                        snprintf(b, sizeof b, "float bits=%08x", bits);
                        ctx.describe(b);
                    }
                    ctx.acc.count("states");
                    rt_float(bits, ctx);
                    if (chunk == 1000 && i == 3) {
                        char b[64];
                        snprintf(b, sizeof b, "float bits=%08x", bits);
                        ctx.acc.sample(b);
                    }
                }
            };
            plan.stages.push_back(st);
        }
        plan.transitions_counter = "evals";
        plan.finish = [](vx::Part &p) { p.distinct_extra = p.acc.counters["states"]; };
        plan.assumptions = {"bit equality, no tolerance; the double->float conversion of the parsed value is the hardware's"};
        return plan;
    });
}
