// tmpl_common.hpp - shared pieces of the template harnesses (C01, C02, C03, C04, C16, C17).
#ifndef TMPL_COMMON_HPP
#define TMPL_COMMON_HPP
#include "vx_ledger.hpp"
#include "vx_main.hpp"
#include "langx.hpp"
#include "JSON.hpp"
#include "Template.hpp"
#include "value_dump.hpp"

using namespace Qentem;
using langx::Text;
using langx::T;

template <typename C>
static const char *wname() {
    return sizeof(C) == 1 ? "char" : (sizeof(C) == 2 ? "char16_t" : (std::is_same<C, wchar_t>::value ? "wchar_t" : "char32_t"));
}

// builds a Value<C> from ASCII JSON text (harness convenience; the JSON parser is checked by C05-C07)
template <typename C>
static Value<C> from_json(const char *json) {
    std::basic_string<C> w;
    for (const char *p = json; *p; p++) {
        w.push_back((C)(unsigned char)*p);
    }
    return JSON::Parse(w.data(), SizeT(w.size()));
}

// adversarial value trees whose keys are exactly the names the token alphabets can spell
template <typename C>
struct ValueSet {
    std::vector<Value<C>>    vals;
    std::vector<std::string> names;
    Value<C>                 target;
    ValueSet() {
        auto add = [&](const char *name, const char *json) {
            vals.push_back(from_json<C>(json));
            names.push_back(name);
        };
        add("object", R"({"a":1,"b":[0,1,{"a":"x<y"}],"v":{"a":2,"x]":3},"x]":"q","0":5,"1":"s&t","g":[{"y":1,"a":2},{"y":2,"a":3},{"y":1,"a":4}],"p":"P{0}{1}{2}","s":"<b>\"'&","n":-9223372036854775807,"d":2.5,"h":0.25,"z":0,"zz":0.0,"t":true,"f":false,"u":null,"e":"","ns":"12","arr":[[1],[2,3]],"o":{"k1":[1],"k2":{}}})");
        add("array", R"([1,"b",[0,1,[5]],{"a":2,"v":[7,8]},-3,2.5,true,null,"",{"y":1},{"y":2}])");
        add("deep", R"({"a":{"a":{"a":{"a":{"a":[[[[1]]]]}}}},"v":[[[[{"v":[1,2]}]]]],"b":{"0":{"0":{"0":0}}}})");
        add("empty-object", "{}");
        add("empty-array", "[]");
        add("scalar", "[0]");
        // removed members (tombstones / holes), divisors, extreme integers
        {
            Value<C> v = from_json<C>(R"({"a":1,"x":2,"b":[1,2,3],"v":{"a":1,"b":2},"0":0,"1":0.0,"m":-1,"h":-0.5})");
            const C kx[2] = {C('x'), 0};
            const C kb[2] = {C('b'), 0};
            const C kv[2] = {C('v'), 0};
            const C ka[2] = {C('a'), 0};
            v.Remove(kx);
            v[kb].RemoveIndex(SizeT(1));
            v[kv].Remove(ka);
            v[kv][ka]; // re-created as Undefined member
            vals.push_back(std::move(v));
            names.push_back("with-removed-members");
        }
        {
            // INT64_MIN and a pointer-to-value member
            Value<C> v;
            const C  ka[2] = {C('a'), 0};
            const C  kb[2] = {C('b'), 0};
            const C  kv[2] = {C('v'), 0};
            v[ka]          = SizeT64I(-9223372036854775807LL - 1);
            v[kb]          = SizeT64I(-1);
            target         = from_json<C>(R"({"a":[1,2],"b":"ptr"})");
            v[kv].SetPointerToValue(&target);
            vals.push_back(std::move(v));
            names.push_back("int64min-and-pointer");
        }
    }
};
#endif
