// C09 - text -> number: integers exact, reals within one ulp of strtod, out-of-range rejected, malformed rejected.
// Engine E3 (numx): complete enumeration of described numeral lattices.
#include "vx_ledger.hpp"
#include "vx_main.hpp"
#include "langx.hpp"
#include "Digit.hpp"
#include <cmath>
#include <cfloat>

using namespace Qentem;

static uint64_t dbits(double d) {
    uint64_t u;
    memcpy(&u, &d, 8);
    return u;
}

struct Parsed {
    bool grammar = false; // matches [+-]?digits(.digits)?([eE][+-]?digits)? (digits without superfluous leading zeros)
    bool pure_int = false;
    bool neg = false, has_sign = false;
    bool mant_zero = true;
    bool int_fits_u = false, int_fits_s = false;
    unsigned long long mag = 0;
    // malformed classes named by the property
    bool leading_zero = false, lone_dot = false, repeated_dot = false, empty_exp = false;
};

static Parsed classify(const std::string &s) {
    Parsed p;
    size_t i = 0, n = s.size();
    if (i < n && (s[i] == '+' || s[i] == '-')) {
        p.neg      = s[i] == '-';
        p.has_sign = true;
        i++;
    }
    size_t ib = i;
    while (i < n && isdigit((unsigned char)s[i])) {
        i++;
    }
    size_t ilen = i - ib;
    size_t dots = 0;
    for (char c : s) {
        dots += c == '.';
    }
    p.repeated_dot = dots > 1;
    p.leading_zero = ilen > 1 && s[ib] == '0';
    bool ok        = ilen > 0 && !p.leading_zero;
    size_t flen = 0;
    bool   has_frac = false, has_exp = false;
    if (i < n && s[i] == '.') {
        has_frac = true;
        i++;
        size_t fb = i;
        while (i < n && isdigit((unsigned char)s[i])) {
            i++;
        }
        flen = i - fb;
        if (flen == 0) {
            ok = false;
        }
        if (ilen == 0 && flen == 0 && i == n) {
            p.lone_dot = true;
        }
    }
    if (i < n && (s[i] == 'e' || s[i] == 'E')) {
        has_exp = true;
        i++;
        if (i < n && (s[i] == '+' || s[i] == '-')) {
            i++;
        }
        size_t eb = i;
        while (i < n && isdigit((unsigned char)s[i])) {
            i++;
        }
        if (i == eb) {
            ok = false;
            if (i == n && (ilen > 0) && (!has_frac || flen > 0)) {
                p.empty_exp = true;
            }
        }
    }
    if (i != n) {
        ok = false;
    }
    p.grammar = ok;
    if (ok) {
        p.pure_int = !has_frac && !has_exp;
        for (size_t k = ib; k < n && s[k] != 'e' && s[k] != 'E'; k++) {
            if (s[k] >= '1' && s[k] <= '9') {
                p.mant_zero = false;
            }
        }
        if (p.pure_int) {
            unsigned __int128 v = 0;
            bool              big = false;
            for (size_t k = ib; k < ib + ilen; k++) {
                v = v * 10 + (unsigned)(s[k] - '0');
                if (v > (((unsigned __int128)1) << 64)) {
                    big = true;
                    break;
                }
            }
            if (!big) {
                if (v <= 0xFFFFFFFFFFFFFFFFULL) {
                    p.int_fits_u = !p.neg;
                    p.mag        = (unsigned long long)v;
                }
                if (p.neg && v <= (((unsigned __int128)1) << 63)) {
                    p.int_fits_s = true;
                    p.mag        = (unsigned long long)v;
                }
            }
        }
    }
    return p;
}

template <typename C>
struct Buf {
    langx::Exact<C> ex;
    langx::Text     t;
    const C        *put(const std::string &s) {
        t.assign(s.begin(), s.end());
        for (auto &c : t) {
            c = (unsigned char)c;
        }
        return ex.put(t);
    }
};

template <typename C>
static void check(const std::string &s, Buf<C> &b, vx::Ctx &ctx, const char *family) {
    const C    *p   = b.put(s);
    QNumber64   num;
    SizeT       off = 0;
    QNumberType t   = Digit::StringToNumber(num, p, off, SizeT(s.size()));
    ctx.acc.count("evals");
    Parsed      c = classify(s);
    char        msg[256];
    std::string key = std::string(sizeof(C) == 1 ? "char " : (sizeof(C) == 2 ? "char16_t " : "char32_t ")) + s;
    if (off > s.size()) {
        ctx.fail(key, "offset moved past the end");
        return;
    }
    if (t != QNumberType::NotANumber && off == s.size()) {
        // the same numeral through the overload without an offset, and behind two other units with the offset set to its start
        // (how the JSON and expression parsers call it): same kind, same bits, consumed to the end
        QNumber64         n2;
        const QNumberType t2 = Digit::StringToNumber(n2, p, SizeT(s.size()));
        ctx.acc.count("evals");
        if (t2 != t || (n2.Natural != num.Natural && !(t == QNumberType::Real && num.Real != num.Real && n2.Real != n2.Real))) {
            snprintf(msg, sizeof msg, "StringToNumber(number, content, length) gives type %d bits %016llx, the overload with an offset type %d bits %016llx", (int)t2,
                     (unsigned long long)n2.Natural, (int)t, (unsigned long long)num.Natural);
            ctx.fail(key, msg);
        }
        const C          *q = b.put("[ " + s);
        QNumber64         n3;
        SizeT             off3 = 2;
        const QNumberType t3   = Digit::StringToNumber(n3, q, off3, SizeT(s.size() + 2));
        ctx.acc.count("evals");
        if (t3 != t || off3 != SizeT(s.size() + 2) || (n3.Natural != num.Natural && !(t == QNumberType::Real && num.Real != num.Real && n3.Real != n3.Real))) {
            snprintf(msg, sizeof msg, "read from offset 2 of '[ %s' gives type %d bits %016llx offset %u, read alone type %d bits %016llx", s.c_str(), (int)t3,
                     (unsigned long long)n3.Natural, (unsigned)off3, (int)t, (unsigned long long)num.Natural);
            ctx.fail(key, msg);
        }
    }
    if (!c.grammar) {
        if (c.leading_zero || c.lone_dot || c.repeated_dot || c.empty_exp) {
            if (t != QNumberType::NotANumber && off == s.size()) {
                snprintf(msg, sizeof msg, "malformed numeral (%s) accepted as type %d", c.leading_zero ? "leading zero" : c.lone_dot ? "lone dot" : c.repeated_dot ? "repeated dot" : "empty exponent", (int)t);
                ctx.fail(key, msg);
            }
        }
        ctx.acc.outcome(vx::mix(1000 + (uint64_t)t * 16 + (off == s.size())));
        return;
    }
    if (t != QNumberType::NotANumber && off != s.size()) {
        snprintf(msg, sizeof msg, "consumed %u of %zu units (type %d)", (unsigned)off, s.size(), (int)t);
        ctx.fail(key, msg);
        return;
    }
    const double ref = strtod(s.c_str(), nullptr);
    if (c.pure_int && (c.int_fits_u || c.int_fits_s)) {
        bool ok = false;
        if (c.mag == 0 && c.neg) {
            ok = (t == QNumberType::Real && dbits(num.Real) == 0x8000000000000000ULL) ||
                 (t == QNumberType::Integer && num.Integer == 0) || (t == QNumberType::Natural && num.Natural == 0);
        } else if (!c.neg) {
            ok = (t == QNumberType::Natural && num.Natural == c.mag) ||
                 (t == QNumberType::Integer && c.mag <= 0x7FFFFFFFFFFFFFFFULL && num.Integer == (long long)c.mag);
        } else {
            ok = (t == QNumberType::Integer && (unsigned long long)num.Integer == (0ULL - c.mag));
        }
        if (!ok) {
            snprintf(msg, sizeof msg, "integer that fits 64 bits not returned exactly: type %d bits %016llx", (int)t,
                     (unsigned long long)num.Natural);
            ctx.fail(key, msg);
        }
        ctx.acc.outcome(vx::mix(2000 + (uint64_t)t));
        return;
    }
    if (std::isinf(ref)) {
        bool ok = (t == QNumberType::NotANumber) || (t == QNumberType::Real && (std::isinf(num.Real) || std::isnan(num.Real)));
        // Between DBL_MAX and 2^1024 the correctly rounded result is infinity from the midpoint on; DBL_MAX is then one
        // unit in the last place away, which the statement's first clause allows. From 2^1024 on nothing finite is allowed.
        if (!ok && t == QNumberType::Real && std::fabs(num.Real) == DBL_MAX && std::signbit(num.Real) == c.neg &&
            fabsl(strtold(s.c_str(), nullptr)) < 0x1p1024L) {
            ok = true;
        }
        if (!ok) {
            snprintf(msg, sizeof msg, "magnitude beyond DBL_MAX returned as type %d value %.17g", (int)t,
                     t == QNumberType::Real ? num.Real : (double)num.Natural);
            ctx.fail(key, msg);
        }
        ctx.acc.outcome(vx::mix(3000 + (uint64_t)t));
        return;
    }
    if (t == QNumberType::NotANumber) {
        // underflow to zero of a non-zero mantissa is outside the statement (it promises nothing below the subnormals)
        if (ref == 0.0 && !c.mant_zero) {
            ctx.acc.outcome(vx::mix(4000));
            return;
        }
        ctx.fail(key, "well-formed numeral in range reported as not-a-number");
        return;
    }
    double got;
    if (t == QNumberType::Real) {
        got = num.Real;
    } else if (t == QNumberType::Natural) {
        got = (double)num.Natural;
        if (got != ref || c.neg) {
            snprintf(msg, sizeof msg, "returned Natural %llu for a numeral worth %.17g", (unsigned long long)num.Natural, ref);
            ctx.fail(key, msg);
            return;
        }
    } else {
        got = (double)num.Integer;
        if (got != ref) {
            snprintf(msg, sizeof msg, "returned Integer %lld for a numeral worth %.17g", (long long)num.Integer, ref);
            ctx.fail(key, msg);
            return;
        }
    }
    uint64_t a = dbits(got), r = dbits(ref);
    bool     sign_ok = (a >> 63) == (uint64_t)(c.neg ? 1 : 0);
    uint64_t am = a & 0x7FFFFFFFFFFFFFFFULL, rm = r & 0x7FFFFFFFFFFFFFFFULL;
    uint64_t d  = am > rm ? am - rm : rm - am;
    if (!sign_ok || d > 1 || std::isnan(got)) {
        snprintf(msg, sizeof msg, "got %.17g (bits %016llx), correctly rounded %.17g (bits %016llx), %llu ulp%s", got,
                 (unsigned long long)a, ref, (unsigned long long)r, (unsigned long long)d, sign_ok ? "" : ", sign lost");
        ctx.fail(key, msg);
    }
    ctx.acc.outcome(vx::mix(5000 + d * 4 + (a >> 63) * 2 + (uint64_t)(t == QNumberType::Real)));
}

struct Bufs {
    Buf<char>     b8;
    Buf<char16_t> b16;
    Buf<char32_t> b32;
};
static void check_all(const std::string &s, Bufs &b, vx::Ctx &ctx, const char *fam, bool wide) {
    check<char>(s, b.b8, ctx, fam);
    if (wide) {
        check<char16_t>(s, b.b16, ctx, fam);
        check<char32_t>(s, b.b32, ctx, fam);
    }
}

#include "mant_patterns.hpp"


// exact decimal expansion of a long double in exponent form "d.ddd...e[-]X" without trailing zeros
static std::string exact_dec(long double x) {
    static char buf[12000];
    snprintf(buf, sizeof buf, "%.11000Le", x);
    std::string s = buf;
    size_t      e = s.find('e');
    std::string m = s.substr(0, e), ex = s.substr(e + 1);
    while (m.size() > 1 && m.back() == '0') {
        m.pop_back();
    }
    if (m.back() == '.') {
        m.pop_back();
    }
    int ev = atoi(ex.c_str());
    return m + "e" + std::to_string(ev);
}
static std::string trunc_digits(const std::string &num, size_t digits) {
    // num = d.ddd e X ; keep `digits` significant digits (truncate, no rounding)
    size_t      e = num.find('e');
    std::string m = num.substr(0, e), ex = num.substr(e);
    std::string out;
    size_t      cnt = 0;
    for (char c : m) {
        if (c == '.') {
            out += c;
            continue;
        }
        if (cnt >= digits) {
            break;
        }
        out += c;
        cnt++;
    }
    if (out.back() == '.') {
        out.pop_back();
    }
    return out + ex;
}
// positional rendition of d.ddd e X for moderate exponents ("123.45", "0.00123")
static std::string positional(const std::string &num) {
    size_t      e  = num.find('e');
    std::string m  = num.substr(0, e);
    int         ex = atoi(num.c_str() + e + 1);
    std::string digs;
    for (char c : m) {
        if (c != '.') {
            digs += c;
        }
    }
    int pointpos = 1 + ex; // digits before the point
    if (pointpos <= 0) {
        return "0." + std::string((size_t)(-pointpos), '0') + digs;
    }
    if ((size_t)pointpos >= digs.size()) {
        return digs + std::string((size_t)pointpos - digs.size(), '0');
    }
    return digs.substr(0, (size_t)pointpos) + "." + digs.substr((size_t)pointpos);
}

int main(int argc, char **argv) {
    return vx::standard_main(argc, argv, [](const vx::Args &a) {
        vx::Plan   plan;
        const bool th    = a.thorough();
        const int  sigmax = atoi(a.get("sig", th ? "9999" : "999").c_str());
        const int  npat  = atoi(a.get("patterns", th ? "64" : "16").c_str());
        const int  slen  = atoi(a.get("strlen", th ? "7" : "6").c_str());
        plan.engine = "numx";
        plan.rule = "numeral lattices enumerated completely: (a) significands 0.." + std::to_string(sigmax) +
                    " x every decimal-point position x exponent none/-345..+325 x e/E x exponent sign forms x sign none/+/-; "
                    "(b) integers within +-2000 of 0, 2^63, 2^64, 10^19, 10^k+-1 (k<=21) in both signs; (c) " + std::to_string(npat) +
                    " mantissa patterns x 2047 binary exponents: exact decimal expansion of the double and of the midpoint to its "
                    "successor, truncated to 17,18,19,20,21,40,100,400,all digits, exponent and positional form; (d) 1.7e308..1e310 "
                    "band; (f) exponents of up to 26 digits around multiples of 2^16/2^32 and powers of ten; (e) every string of <=" + std::to_string(slen) + " units over {0 1 9 . e E + -}; oracle glibc strtod; "
                    "distinct = distinct (class, ulp distance, sign, kind) outcomes";
        plan.bounds = "sig<=" + std::to_string(sigmax) + " patterns=" + std::to_string(npat) + " strlen<=" + std::to_string(slen);
        // (a)
        {
            vx::Stage st;
            st.name   = "sig-lattice";
            st.chunks = sigmax + 1;
            st.fn     = [](int64_t chunk, vx::Ctx &ctx) {
                static Bufs b;
                std::string digs = std::to_string(chunk);
                std::vector<std::string> mants;
                mants.push_back(digs);
                for (size_t p = 1; p < digs.size(); p++) {
                    mants.push_back(digs.substr(0, p) + "." + digs.substr(p));
                }
                mants.push_back("0." + digs);
                mants.push_back("0.00" + digs);
                mants.push_back(digs + ".0");
                mants.push_back(digs + "00");
                if (chunk != 0) {
                    mants.push_back(digs + ".50");
                }
                const char *signs[] = {"", "-", "+"};
                for (auto &m : mants) {
                    for (int e = -346; e <= 325; e++) {
                        for (int sg = 0; sg < 3; sg++) {
                            if (!ctx.next()) {
                                continue;
                            }
                            std::string s = std::string(signs[sg]) + m;
                            char        eb[16];
                            if (e >= -345) {
                                // exponent spelling rotates with the case index so all of e, E, e+, E+, e0N appear
                                int form = (int)((e + 400 + sg) % 4);
                                if (e < 0) {
                                    snprintf(eb, sizeof eb, "%s-%d", (form & 1) ? "E" : "e", -e);
                                } else {
                                    snprintf(eb, sizeof eb, "%s%s%d", (form & 1) ? "E" : "e", (form & 2) ? "+" : "", e);
                                }
                                s += eb;
                            }
                            if (ctx.want_desc()) {
                                ctx.describe(s);
                            }
                            ctx.acc.count("states");
                            check_all(s, b, ctx, "a", (e & 31) == 0);
                            if ((ctx.idx % 9973) == 3 && chunk % 97 == 5) {
                                ctx.acc.sample(s);
                            }
                        }
                    }
                }
            };
            plan.stages.push_back(st);
        }
        // (b) integer boundaries
        {
            vx::Stage st;
            st.name   = "int-boundaries";
            st.chunks = 64;
            st.fn     = [](int64_t chunk, vx::Ctx &ctx) {
                static Bufs b;
                std::vector<unsigned __int128> centers = {0, ((unsigned __int128)1) << 63, ((unsigned __int128)1) << 64,
                                                          (unsigned __int128)10000000000000000000ULL};
                unsigned __int128 p10 = 1;
                for (int k = 1; k <= 21; k++) {
                    p10 *= 10;
                    centers.push_back(p10);
                }
                int64_t n = 0;
                for (auto c : centers) {
                    for (int d = -2000; d <= 2000; d++) {
                        if ((n++ % 64) != chunk) {
                            continue;
                        }
                        if (d < 0 && c < (unsigned __int128)(-d)) {
                            continue;
                        }
                        unsigned __int128 v = c + d;
                        std::string       s;
                        if (v == 0) {
                            s = "0";
                        }
                        while (v) {
                            s.insert(s.begin(), char('0' + (int)(v % 10)));
                            v /= 10;
                        }
                        for (const char *sg : {"", "-", "+"}) {
                            if (!ctx.next()) {
                                continue;
                            }
                            std::string t = std::string(sg) + s;
                            if (ctx.want_desc()) {
                                ctx.describe(t);
                            }
                            ctx.acc.count("states");
                            check_all(t, b, ctx, "b", true);
                        }
                    }
                }
            };
            plan.stages.push_back(st);
        }
        // (c) exact expansions and ties
        {
            vx::Stage st;
            st.name   = "exact-and-ties";
            st.chunks = 2047;
            st.hang_s = 60;
            st.fn     = [npat](int64_t chunk, vx::Ctx &ctx) {
                static Bufs b;
                const size_t cuts[] = {17, 18, 19, 20, 21, 40, 100, 400, 100000};
                for (int pi = 0; pi < npat; pi++) {
                    uint64_t bits = ((uint64_t)chunk << 52) | MANT[pi];
                    double   d;
                    memcpy(&d, &bits, 8);
                    if (bits == 0) {
                        continue;
                    }
                    uint64_t nb = bits + 1;
                    double   dn;
                    memcpy(&dn, &nb, 8);
                    long double mid = std::isinf(dn) ? ((long double)d + ldexpl(1.0L, 970)) : ((long double)d + (long double)dn) / 2;
                    std::string ex[2] = {exact_dec((long double)d), exact_dec(mid)};
                    for (int w = 0; w < 2; w++) {
                        for (size_t cut : cuts) {
                            std::string s = trunc_digits(ex[w], cut);
                            for (int form = 0; form < 2; form++) {
                                if (form == 1) {
                                    int e10 = atoi(s.c_str() + s.find('e') + 1);
                                    if (e10 < -25 || e10 > 25) {
                                        continue;
                                    }
                                    s = positional(s);
                                }
                                for (int neg = 0; neg < 2; neg++) {
                                    if (!ctx.next()) {
                                        continue;
                                    }
                                    std::string t = (neg ? "-" : "") + s;
                                    if (ctx.want_desc()) {
                                        ctx.describe(t);
                                    }
                                    ctx.acc.count("states");
                                    check_all(t, b, ctx, "c", false);
                                    if (chunk == 1000 && pi == 1 && cut == 21) {
                                        ctx.acc.sample(t);
                                    }
                                }
                            }
                        }
                    }
                }
            };
            plan.stages.push_back(st);
        }
        // (d) band around DBL_MAX
        {
            vx::Stage st;
            st.name   = "overflow-band";
            st.chunks = 90;
            st.fn     = [](int64_t chunk, vx::Ctx &ctx) {
                static Bufs b;
                for (int sig = 1000 + (int)chunk * 100; sig < 1000 + ((int)chunk + 1) * 100; sig++) {
                    std::string digs = std::to_string(sig);
                    for (size_t p = 0; p <= digs.size(); p++) {
                        std::string m = p == 0 ? "0." + digs : (p == digs.size() ? digs : digs.substr(0, p) + "." + digs.substr(p));
                        for (int e = 300; e <= 312; e++) {
                            if (!ctx.next()) {
                                continue;
                            }
                            std::string s = m + "e" + std::to_string(e);
                            if (ctx.want_desc()) {
                                ctx.describe(s);
                            }
                            ctx.acc.count("states");
                            check_all(s, b, ctx, "d", false);
                            check_all("-" + s, b, ctx, "d", false);
                        }
                    }
                }
            };
            plan.stages.push_back(st);
        }
        // (f) exponents with many digits: around every multiple of 2^32 and 2^16, powers of ten, leading zeros
        {
            vx::Stage st;
            st.name   = "long-exponents";
            st.chunks = 16;
            st.hang_s = 30;
            st.fn     = [](int64_t chunk, vx::Ctx &ctx) {
                static Bufs b;
                std::vector<unsigned __int128> centers;
                for (int k = 1; k <= 4; k++) {
                    centers.push_back(((unsigned __int128)k) << 32);
                    centers.push_back(((unsigned __int128)k) << 16);
                }
                centers.push_back(((unsigned __int128)1) << 64);
                centers.push_back(((unsigned __int128)1) << 31);
                unsigned __int128 p10 = 100;
                for (int k = 3; k <= 25; k++) {
                    p10 *= 10;
                    centers.push_back(p10);
                }
                int64_t n = 0;
                for (auto c : centers) {
                    for (int d = -330; d <= 330; d += (d > -5 && d < 5) ? 1 : 13) {
                        if ((n++ % 16) != chunk) {
                            continue;
                        }
                        unsigned __int128 v = c + d;
                        std::string       e;
                        while (v) {
                            e.insert(e.begin(), char('0' + (int)(v % 10)));
                            v /= 10;
                        }
                        for (const char *m : {"1", "0.5", "-12.25", "0", "0.0", "123456789012345678901"}) {
                            for (const char *es : {"e", "E+", "e-", "e000"}) {
                                if (!ctx.next()) {
                                    continue;
                                }
                                std::string t = std::string(m) + es + e;
                                if (ctx.want_desc()) {
                                    ctx.describe(t);
                                }
                                ctx.acc.count("states");
                                check_all(t, b, ctx, "f", (d & 1) == 0);
                            }
                        }
                    }
                }
            };
            plan.stages.push_back(st);
        }
        // (f2) exponents written with leading zeros: the value is the one of the exponent without them
        {
            vx::Stage st;
            st.name   = "zero-padded-exponents";
            st.chunks = 16;
            st.fn     = [](int64_t chunk, vx::Ctx &ctx) {
                static Bufs      b;
                std::vector<int> exps;
                for (int e = 0; e <= 30; e++) {
                    exps.push_back(e);
                }
                for (int e : {99, 100, 101, 290, 300, 307, 308, 309, 323, 324, 330}) {
                    exps.push_back(e);
                }
                int64_t n = 0;
                for (int zeros = 0; zeros <= 25; zeros++) {
                    for (int e : exps) {
                        if ((n++ % 16) != chunk) {
                            continue;
                        }
                        for (const char *m : {"1", "2.5", "-12.25", "0.001", "0", "123456789012345678901", "9007199254740993"}) {
                            for (const char *es : {"e", "E+", "e-"}) {
                                if (!ctx.next()) {
                                    continue;
                                }
                                std::string t = std::string(m) + es + std::string((size_t)zeros, '0') + std::to_string(e);
                                if (ctx.want_desc()) {
                                    ctx.describe(t);
                                }
                                ctx.acc.count("states");
                                check_all(t, b, ctx, "f2", (zeros & 1) == 0);
                            }
                        }
                    }
                }
            };
            plan.stages.push_back(st);
        }
        // (g) long significands whose extra digits are taken back by the exponent: d[.d..] followed by z zeros and e-(x+z);
        //     0.<z zeros>d..e+(x+z); the written exponent goes far beyond +-324 while the value stays ordinary
        {
            vx::Stage st;
            st.name   = "compensated-exponents";
            st.chunks = 71; // x = -350 .. 350 step 10
            st.fn     = [](int64_t chunk, vx::Ctx &ctx) {
                static Bufs b;
                const int   x0 = -350 + (int)chunk * 10;
                for (int x = x0; x < x0 + 10 && x <= 350; x++) {
                    for (int z : {1, 5, 17, 18, 19, 20, 21, 22, 25, 36, 37, 38, 40, 60, 100, 300, 330, 400}) {
                        for (const char *d : {"1", "9", "12", "123456789", "12345678901234567890", "99999999999999999999"}) {
                            if (!ctx.next()) {
                                continue;
                            }
                            char e1[32], e2[32];
                            snprintf(e1, sizeof e1, "e%d", x - z);
                            snprintf(e2, sizeof e2, "e%+d", x + z);
                            const std::string zs((size_t)z, '0');
                            const std::string t1 = std::string(d) + zs + e1;                 // d000..0e(x-z)
                            const std::string t2 = std::string(d) + "." + zs + e1;           // d.000..0e(x-z): zeros that do not scale
                            const std::string t3 = "0." + zs + d + e2;                       // 0.000..0d e(x+z)
                            const std::string t4 = std::string("-") + d + zs + "." + zs + e1;
                            if (ctx.want_desc()) {
                                ctx.describe(t1 + " | " + t3);
                            }
                            ctx.acc.count("states");
                            check_all(t1, b, ctx, "g", (x & 1) == 0);
                            check_all(t2, b, ctx, "g", false);
                            check_all(t3, b, ctx, "g", (x & 1) == 0);
                            check_all(t4, b, ctx, "g", false);
                        }
                    }
                }
            };
            plan.stages.push_back(st);
        }
        // (e) short strings over the numeral alphabet
        {
            static langx::Alphabet al;
            al = langx::Alphabet();
            for (const char *p = "019.eE+-"; *p; p++) {
                al.tokens.push_back(langx::Text(1, (unsigned char)*p));
            }
            vx::Stage st;
            st.name   = "short-strings";
            st.chunks = langx::sigma_chunks(al, slen, 2);
            st.fn     = [slen](int64_t chunk, vx::Ctx &ctx) {
                static Bufs b;
                langx::sigma_walk(al, slen, 2, chunk, ctx, [&](const langx::Text &t, int, bool) {
                    if (!ctx.next()) {
                        return;
                    }
                    std::string s(t.begin(), t.end());
                    if (ctx.want_desc()) {
                        ctx.describe(s);
                    }
                    if (s.empty()) {
                        return;
                    }
                    check_all(s, b, ctx, "e", true);
                });
            };
            plan.stages.push_back(st);
        }
        plan.transitions_counter = "evals";
        plan.assumptions = {"glibc strtod and printf(%Le) are exact / correctly rounded (trusted base)",
                            "numerals that underflow to zero may be reported as not-a-number (outside the statement)",
                            "ties may round either way (the statement allows one ulp)"};
        return plan;
    });
}
