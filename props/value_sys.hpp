#ifndef VALUE_SYS_HPP
#define VALUE_SYS_HPP
// value_sys.hpp - the Value system (two registers + pointee + abstract document model) shared by C12, C08 and C16.
// C12 - a Value behaves as an abstract JSON document under every operation sequence.
// Engine E1 (seqx): two registers R0/R1 plus a pointee T; operations are applied at the root and at child paths; an
// abstract document model (plain tree) predicts every read of the public API after every step.
#include "vx_ledger.hpp"
#include "vx_main.hpp"
#include "seqx.hpp"
#include "Value.hpp"
#include <utility>
#include <cmath>

using namespace Qentem;
using V  = Value<char>;
using VS = String<char>;

// ---------------------------------------------------------------------------------------------------------
// the abstract document model
struct MV {
    enum K { U, T, F, N, UI, SI, D, S, A, O, P } k = U;
    unsigned long long u = 0;
    long long          i = 0;
    double             d = 0;
    std::string        s;
    std::vector<MV>    items;                           // A: elements, holes are k==U
    std::vector<std::pair<std::string, MV>> members;    // O: live members in insertion order
    bool               had_removal = false;             // O: slot numbers no longer meaningful
    int find(const std::string &key) const {
        for (size_t x = 0; x < members.size(); x++) {
            if (members[x].first == key) {
                return (int)x;
            }
        }
        return -1;
    }
};
static MV mU() { return MV(); }
static MV mK(MV::K k) {
    MV m;
    m.k = k;
    return m;
}
static MV mUI(unsigned long long v) {
    MV m;
    m.k = MV::UI;
    m.u = v;
    return m;
}
static MV mSI(long long v) {
    MV m;
    m.k = MV::SI;
    m.i = v;
    return m;
}
static MV mD(double v) {
    MV m;
    m.k = MV::D;
    m.d = v;
    return m;
}
static MV mS(const std::string &v) {
    MV m;
    m.k = MV::S;
    m.s = v;
    return m;
}
// what a pointer node forwards to: five pointees (an object, a string, an Undefined value, a pointer to the object and a
// pointer to the Undefined value - chains of pointers are followed to their end)
struct Targets {
    MV t[5];
};
static const MV &deref(const MV &m, const Targets &target) {
    const MV *p = &m;
    while (p->k == MV::P) {
        p = &target.t[p->u];
    }
    return *p;
}

static std::string mjson(const MV &m, const Targets &target, bool top);
static void        mjson_into(const MV &m0, const Targets &target, std::string &o) {
    const MV &m = deref(m0, target);
    char      b[64];
    switch (m.k) {
        case MV::T: o += "true"; break;
        case MV::F: o += "false"; break;
        case MV::N: o += "null"; break;
        case MV::UI: snprintf(b, sizeof b, "%llu", m.u); o += b; break;
        case MV::SI: snprintf(b, sizeof b, "%lld", m.i); o += b; break;
        case MV::D: snprintf(b, sizeof b, "%.15g", m.d); o += b; break;
        case MV::S: o += "\"" + m.s + "\""; break; // alphabet strings need no escaping
        case MV::A: {
            o += "[";
            bool first = true;
            for (auto &e : m.items) {
                if (deref(e, target).k == MV::U) {
                    continue;
                }
                if (!first) {
                    o += ",";
                }
                first = false;
                mjson_into(e, target, o);
            }
            o += "]";
            break;
        }
        case MV::O: {
            o += "{";
            bool first = true;
            for (auto &e : m.members) {
                if (deref(e.second, target).k == MV::U) {
                    continue;
                }
                if (!first) {
                    o += ",";
                }
                first = false;
                o += "\"" + e.first + "\":";
                mjson_into(e.second, target, o);
            }
            o += "}";
            break;
        }
        default: break;
    }
}
static std::string mjson(const MV &m, const Targets &target, bool) {
    std::string o;
    const MV   &r = deref(m, target);
    if (r.k == MV::A || r.k == MV::O) {
        mjson_into(r, target, o);
    }
    return o; // Stringify of a scalar root writes nothing
}
static std::string mdump(const MV &m) {
    std::string o;
    switch (m.k) {
        case MV::U: return "U";
        case MV::T: return "T";
        case MV::F: return "F";
        case MV::N: return "N";
        case MV::UI: return "u" + std::to_string(m.u);
        case MV::SI: return "i" + std::to_string(m.i);
        case MV::D: return "d" + std::to_string(m.d);
        case MV::S: return "\"" + m.s + "\"";
        case MV::P: return "*" + std::to_string(m.u);
        case MV::A:
            o = "[";
            for (auto &e : m.items) {
                o += mdump(e) + ",";
            }
            return o + "]";
        case MV::O:
            o = m.had_removal ? "{~" : "{";
            for (auto &e : m.members) {
                o += e.first + ":" + mdump(e.second) + ",";
            }
            return o + "}";
    }
    return o;
}

// ---------------------------------------------------------------------------------------------------------
// comparison of a Value with the model through the public read API
static bool numeric_string(const std::string &s, int &kind, unsigned long long &u, long long &i, double &d) {
    // the alphabet only has "12" (Natural), "-3" (Integer), "2.5" (Real), and "s", "", "12x" (not numbers)
    if (s == "12") {
        kind = 2;
        u    = 12;
        return true;
    }
    if (s == "18446744073709551615") {
        kind = 2;
        u    = 18446744073709551615ULL;
        return true;
    }
    if (s == "-3") {
        kind = 3;
        i    = -3;
        return true;
    }
    if (s == "2.5") {
        kind = 1;
        d    = 2.5;
        return true;
    }
    return false;
}

static std::string compare(const V &v, const MV &m0, const Targets &target, const std::string &path, int depth = 0) {
    const MV &m = deref(m0, target);
    char      b[300];
    if (depth > 12) {
        return "";
    }
    // kind predicates
    struct P {
        bool is;
        MV::K k;
        const char *n;
    } preds[] = {{v.IsUndefined(), MV::U, "IsUndefined"}, {v.IsTrue(), MV::T, "IsTrue"},   {v.IsFalse(), MV::F, "IsFalse"},
                 {v.IsNull(), MV::N, "IsNull"},           {v.IsUInt64(), MV::UI, "IsUInt64"}, {v.IsInt64(), MV::SI, "IsInt64"},
                 {v.IsDouble(), MV::D, "IsDouble"},       {v.IsString(), MV::S, "IsString"}, {v.IsArray(), MV::A, "IsArray"},
                 {v.IsObject(), MV::O, "IsObject"}};
    for (auto &p : preds) {
        if (p.is != (m.k == p.k)) {
            snprintf(b, sizeof b, "%s: %s() is %d but the document model has %s", path.c_str(), p.n, (int)p.is, mdump(m).c_str());
            return b;
        }
    }
    if (v.IsNumber() != (m.k == MV::UI || m.k == MV::SI || m.k == MV::D)) {
        return path + ": IsNumber() disagrees with the model " + mdump(m);
    }
    if (m0.k != MV::P) {
        static const ValueType tmap[] = {ValueType::Undefined, ValueType::True,   ValueType::False, ValueType::Null,  ValueType::UIntLong, ValueType::IntLong,
                                         ValueType::Double,    ValueType::String, ValueType::Array, ValueType::Object, ValueType::ValuePtr};
        if (v.Type() != tmap[m.k]) {
            return path + ": Type() disagrees with the model " + mdump(m);
        }
    } else if (v.Type() != ValueType::ValuePtr) {
        return path + ": expected a pointer-to-value node";
    }
    // typed getters / coercions
    {
        unsigned long long eu = 0;
        long long          ei = 0;
        double             ed = 0;
        int                nk = 0; // QNumberType: 0 NaN, 1 Real, 2 Natural, 3 Integer
        bool               eb = false, hb = false, check_i = true;
        switch (m.k) {
            case MV::UI: nk = 2; eu = m.u; ei = (long long)m.u; ed = (double)m.u; hb = true; eb = m.u > 0; break;
            case MV::SI: nk = 3; eu = (unsigned long long)m.i; ei = m.i; ed = (double)m.i; hb = true; eb = m.i > 0; break;
            case MV::D:
                nk = 1;
                ed = m.d;
                hb = true;
                eb = m.d > 0;
                if (m.d >= 9223372036854775808.0 && m.d < 18446744073709551616.0) {
                    eu      = (unsigned long long)m.d; // fits the unsigned getter; the signed one has no value to give
                    check_i = false;
                } else {
                    eu = (unsigned long long)(long long)m.d;
                    ei = (long long)m.d;
                }
                break;
            case MV::T: nk = 2; eu = 1; ei = 1; ed = 1; hb = true; eb = true; break;
            case MV::F:
            case MV::N: nk = 2; eu = 0; ei = 0; ed = 0; hb = true; eb = false; break;
            case MV::S: {
                unsigned long long su = 0;
                long long          si = 0;
                double             sd = 0;
                int                kind = 0;
                if (numeric_string(m.s, kind, su, si, sd)) {
                    nk = kind;
                    if (kind == 2) {
                        eu = su; ei = (long long)su; ed = (double)su;
                    } else if (kind == 3) {
                        eu = (unsigned long long)si; ei = si; ed = (double)si;
                    } else {
                        eu = (unsigned long long)(long long)sd; ei = (long long)sd; ed = sd;
                    }
                }
                if (m.s == "true") {
                    hb = true; eb = true;
                } else if (m.s == "false") {
                    hb = true; eb = false;
                }
                break;
            }
            default: break;
        }
        QNumber64   q;
        QNumberType qt = v.SetNumber(q);
        if ((int)qt != nk) {
            snprintf(b, sizeof b, "%s: SetNumber() kind %d, model %s expects %d", path.c_str(), (int)qt, mdump(m).c_str(), nk);
            return b;
        }
        if (v.GetUInt64() != eu || (check_i && v.GetInt64() != ei) || v.GetDouble() != ed || v.GetNumber() != ed) {
            snprintf(b, sizeof b, "%s: GetUInt64/GetInt64/GetDouble = %llu/%lld/%g, model %s expects %llu/%lld/%g", path.c_str(),
                     (unsigned long long)v.GetUInt64(), (long long)v.GetInt64(), v.GetDouble(), mdump(m).c_str(), eu, ei, ed);
            return b;
        }
        bool bv = true;
        bool gb = v.SetBool(bv);
        if (gb != hb || (gb && bv != eb)) {
            snprintf(b, sizeof b, "%s: SetBool() -> %d/%d, model %s expects %d/%d", path.c_str(), (int)gb, (int)bv, mdump(m).c_str(), (int)hb, (int)eb);
            return b;
        }
    }
    if (m.k == MV::S) {
        if (v.Length() != m.s.size() || v.GetString() == nullptr || std::string(v.StringStorage() ? v.StringStorage() : "", v.Length()) != m.s ||
            std::string(v.GetStringView().First() ? v.GetStringView().First() : "", v.GetStringView().Length()) != m.s) {
            return path + ": string content differs from the model \"" + m.s + "\"";
        }
        if (v.StringStorage() != nullptr && v.StringStorage()[v.Length()] != 0) {
            return path + ": string not NUL-terminated";
        }
    } else {
        if (v.Length() != 0 || v.GetString() != nullptr || v.StringStorage() != nullptr) {
            return path + ": string accessors of a non-string are not empty";
        }
    }
    if (m.k == MV::A) {
        if (v.Size() != m.items.size() || v.GetArray() == nullptr) {
            snprintf(b, sizeof b, "%s: Size() is %u, model array %s has %zu", path.c_str(), (unsigned)v.Size(), mdump(m).c_str(), m.items.size());
            return b;
        }
        for (size_t x = 0; x < m.items.size(); x++) {
            const V *e = v.GetValue(SizeT(x));
            bool     hole = deref(m.items[x], target).k == MV::U;
            // a pointer node whose pointee is Undefined may be handed out as a node that reports IsUndefined()
            const bool ptr_to_undef = hole && m.items[x].k == MV::P;
            if (((e == nullptr) != hole) && !(ptr_to_undef && e != nullptr && e->IsUndefined())) {
                snprintf(b, sizeof b, "%s[%zu]: GetValue(index) is %s, model element is %s", path.c_str(), x, e ? "present" : "null", mdump(m.items[x]).c_str());
                return b;
            }
            const V *raw = v.GetArray()->First() + x;
            std::string r = compare(*raw, m.items[x], target, path + "[" + std::to_string(x) + "]", depth + 1);
            if (!r.empty()) {
                return r;
            }
            // decimal keys address array elements too
            std::string ks = std::to_string(x);
            const V    *bk = v.GetValue(ks.c_str(), SizeT(ks.size()));
            if (bk != e) {
                return path + ": GetValue(\"" + ks + "\") differs from GetValue(" + ks + ")";
            }
            (void)ptr_to_undef;
        }
        if (v.GetValue(SizeT(m.items.size())) != nullptr || v.GetValue(SizeT(m.items.size() + 5)) != nullptr) {
            return path + ": GetValue(index beyond the end) is not null";
        }
        if (v.GetKey(0) != nullptr) {
            return path + ": GetKey on an array is not null";
        }
        // a key that is not the decimal text of an index below Size() names no element: empty, index + 2^32 (wraps a 32-bit
        // index), 2^64 + index, a digit followed by other units, signs and blanks
        for (const char *k : {"", "4294967296", "4294967297", "18446744073709551616", "0x", "0 ", " 0", "+0", "-0", "0.0", "1e0", "/9", "0:"}) {
            if (v.GetValue(k, SizeT(strlen(k))) != nullptr) {
                return path + ": GetValue(\"" + k + "\") of an array with " + std::to_string(m.items.size()) + " elements is not null";
            }
        }
    } else if (m.k == MV::O) {
        const auto *obj = v.GetObject();
        if (obj == nullptr) {
            return path + ": GetObject() is null for an object";
        }
        size_t live = 0;
        for (auto &e : m.members) {
            (void)e;
            live++;
        }
        if (obj->ActualSize() != live) {
            snprintf(b, sizeof b, "%s: object holds %u live members, model %s has %zu", path.c_str(), (unsigned)obj->ActualSize(), mdump(m).c_str(), live);
            return b;
        }
        std::vector<std::string> probe = {"a", "b", "c", "k", "", "absent"};
        for (auto &k : probe) {
            int      mi = m.find(k);
            const V *e  = v.GetValue(k.c_str(), SizeT(k.size()));
            StringView<char> kv(k.c_str(), SizeT(k.size()));
            const V *e2 = v.GetValue(kv);
            bool     expect_present = mi >= 0 && deref(m.members[(size_t)mi].second, target).k != MV::U;
            if ((e != nullptr) != expect_present || e != e2) {
                snprintf(b, sizeof b, "%s: GetValue(\"%s\") is %s, model %s", path.c_str(), k.c_str(), e ? "present" : "null", mdump(m).c_str());
                return b;
            }
            if (mi >= 0) {
                const V *raw = obj->GetValue(k.c_str(), SizeT(k.size()));
                if (raw == nullptr) {
                    return path + ": member \"" + k + "\" is missing from the object";
                }
                std::string r = compare(*raw, m.members[(size_t)mi].second, target, path + "." + k, depth + 1);
                if (!r.empty()) {
                    return r;
                }
            }
        }
        // iteration order of live members = insertion order
        size_t n = 0;
        for (SizeT x = 0; x < obj->Size(); x++) {
            const VS *k = obj->GetKey(x);
            if (k == nullptr) {
                continue;
            }
            std::string ks(k->First() ? k->First() : "", k->Length());
            if (n >= m.members.size() || m.members[n].first != ks) {
                snprintf(b, sizeof b, "%s: live member #%zu is \"%s\", model %s", path.c_str(), n, ks.c_str(), mdump(m).c_str());
                return b;
            }
            n++;
        }
        if (!m.had_removal) {
            // slot numbers are meaningful: positional access agrees with the insertion order
            if (v.Size() != m.members.size()) {
                snprintf(b, sizeof b, "%s: Size() is %u, model object %s has %zu members and no removals", path.c_str(), (unsigned)v.Size(), mdump(m).c_str(), m.members.size());
                return b;
            }
            for (size_t x = 0; x < m.members.size(); x++) {
                const VS *k = v.GetKey(SizeT(x));
                const V  *e = v.GetValue(SizeT(x));
                bool      undef = deref(m.members[x].second, target).k == MV::U;
                if (k == nullptr || std::string(k->First() ? k->First() : "", k->Length()) != m.members[x].first || ((e == nullptr) != undef)) {
                    snprintf(b, sizeof b, "%s: positional access #%zu disagrees with the model %s", path.c_str(), x, mdump(m).c_str());
                    return b;
                }
                const char *kp = nullptr;
                SizeT       kl = 0;
                if (!v.SetKeyCharAndLength(SizeT(x), kp, kl) || std::string(kp, kl) != m.members[x].first) {
                    return path + ": SetKeyCharAndLength disagrees";
                }
            }
        }
    } else {
        if (v.Size() != 0 || v.GetValue(SizeT(0)) != nullptr || v.GetValue("a", SizeT(1)) != nullptr || v.GetKey(0) != nullptr ||
            v.GetArray() != nullptr || v.GetObject() != nullptr) {
            return path + ": container accessors of a scalar are not empty (model " + mdump(m) + ")";
        }
    }
    return "";
}

// ---------------------------------------------------------------------------------------------------------
struct OpD {
    const char *path;
    const char *act;
};

struct VSys {
    alignas(16) unsigned char raw0[sizeof(V)], raw1[sizeof(V)], rawT[sizeof(V)];
    V  *R0, *R1, *T;
    V   TS, TU; // further pointees: a string and an Undefined value
    V   TP, TPU; // and pointers to the object and to the Undefined value (two-step chains)
    MV  m0, m1;
    int ctor_mark = -1;
    Targets mt;
    VSys() {
        memset(raw0, 0xAB, sizeof raw0);
        memset(raw1, 0xAB, sizeof raw1);
        memset(rawT, 0xAB, sizeof rawT);
        R0 = new (raw0) V();
        R1 = new (raw1) V();
        T  = new (rawT) V();
        // the pointee: an object kept alive for the whole history
        (*T)["k"] = SizeT64{1};
        mt.t[0].k = MV::O;
        mt.t[0].members.push_back({"k", mUI(1)});
        TS      = "ps";
        mt.t[1] = mS("ps");
        mt.t[2] = mU();
        TP.SetPointerToValue(T);
        mt.t[3].k = MV::P;
        mt.t[3].u = 0;
        TPU.SetPointerToValue(&TU);
        mt.t[4].k = MV::P;
        mt.t[4].u = 2;
    }
    ~VSys() {
        R0->~V();
        R1->~V();
        T->~V();
    }
    VSys(const VSys &) = delete;

    static const std::vector<OpD> &ops() {
        static std::vector<OpD> o = [] {
            std::vector<OpD> v;
            const char *paths[] = {"R0", "R0[\"a\"]", "R0[0]", "R0[\"a\"][\"b\"]", "R0[1]"};
            const char *acts[]  = {
                "=true", "=false", "=null", "=7u", "=-3", "=2.5", "=\"s\"", "=\"\"", "=\"12\"", "={k:1}", "=[1,\"x\"]", "={a:{a:1,b:2,c:3},x:0}", "=R1", "=move(R1)", "=self",
                "=String(\"s\")", "=const String&", "=StringView", "=ArrayT&&", "=ObjectT const&",
                "=own array (const ArrayT& alias)", "=own object (const ObjectT& alias)", "=own string (const String& alias)",
                "=18446744073709551615u", "=\"18446744073709551615\"", "=\"12x\"", "=1e19",
                "=own first child's characters (const Char_T*)", "[own first element's characters (const Char_T*)]",
                "=ValueType::Null", "=ValueType::Array", "=ValueType::Object", "=ValueType::String",
                "=own first child (const Value&)", "=move(own first child)", "+=own first element (const Value&)", "first element=whole (const Value&)",
                "=move(own first child's container/string)", "+=move(own first element's array/string)", "Insert(\"c\",move(own first child))",
                "Merge(move(own first child))", "+=move(own first child)", "[move(own first element's string)]",
                "+=7u", "+=\"s\"", "+=null", "+=true", "+=2.5", "+=[] (ArrayT&&)", "+=[9,8] (ArrayT&&)", "+=[9] (const ArrayT&)", "+={c:3} (ObjectT&&)",
                "+={a:4} (const ObjectT&)", "+=R1", "+=move(R1)", "+=String&&", "+=StringView",
                "Merge(R1)", "Merge(move(R1))", "Merge(self) (const Value&)", "+=own first child (const Value&) [object]",
                "Merge(own first child) (const Value&)", "first member's object=whole object (const ObjectT&)",
                "Remove(\"a\")", "Remove(\"b\",1)", "Remove(String \"a\")", "Remove(String \"k\")", "RemoveIndex(0)", "RemoveIndex(1)", "RemoveIndex(Size)",
                "Reset", "Compress", "Sort", "Sort desc",
                "Get(\"b\",1)=5u", "Get(StringView \"c\")=\"s\"", "Insert(\"a\",6u)", "[StringView \"b\"]=null", "[String&& \"c\"]=true", "[const String& \"a\"]=-3",
                "SetPointerToValue(&T)", "AddPointerToValue(&T)", "SetPointerToValue(&TS string)", "AddPointerToValue(&TS string)",
                "AddPointerToValue(&TU undefined)", "SetPointerToValue(&TP pointer to T)", "AddPointerToValue(&TP pointer to T)",
                "AddPointerToValue(&TPU pointer to undefined)",
            };
            for (auto p : paths) {
                for (auto a : acts) {
                    if (std::string(p) != "R0" && std::string(p) != "R0[\"a\"]" && std::string(p) != "R0[0]") {
                        // deeper / sparse paths: a reduced action set
                        std::string s = a;
                        if (!(s == "=7u" || s == "=\"s\"" || s == "={k:1}" || s == "+=7u" || s == "Remove(\"a\")" || s == "Reset" || s == "=R1" || s == "+=R1")) {
                            continue;
                        }
                    }
                    v.push_back({p, a});
                }
            }
            // fresh construction of R0 in 0xAB-filled storage by every constructor (then mutated by later operations)
            for (auto a : {"new V(7u)", "new V(-3)", "new V(2.5)", "new V(true)", "new V(nullptr)", "new V(ValueType::Null)", "new V(String&&)",
                           "new V(ptr,len)", "new V(ObjectT&&)", "new V(ArrayT&&)", "new V(ValueType::Array,2)", "new V(ValueType::Object,2)",
                           "new V(const R1&)", "new V(move(R1))", "new V(StringView)", "new V(unsigned short 9)", "new V(float 0.5)"}) {
                v.push_back({"R0:=", a});
            }
            for (auto a : {"={a:1,c:[1]}", "=[1,\"x\"]", "=\"str\"", "=5u", "=R0", "=move(R0)", "[\"a\"]=2u", "Remove(\"a\")"}) {
                v.push_back({"R1", a});
            }
            return v;
        }();
        return o;
    }
    static int         num_ops() { return (int)ops().size(); }
    static std::string op_name(int i) { return std::string(ops()[(size_t)i].path) + " " + ops()[(size_t)i].act; }

    // model side of operator[](key): turn into an object, get-or-create the member
    static MV &m_key(MV &m, const std::string &k) {
        if (m.k != MV::O) {
            m   = MV();
            m.k = MV::O;
        }
        int i = m.find(k);
        if (i < 0) {
            m.members.push_back({k, mU()});
            i = (int)m.members.size() - 1;
        }
        return m.members[(size_t)i].second;
    }
    // model side of operator[](index); returns nullptr when the step depends on slot numbers of an object with removals
    static MV *m_idx(MV &m, size_t idx) {
        if (m.k == MV::A) {
            if (idx < m.items.size()) {
                return &m.items[idx];
            }
        } else {
            if (m.k == MV::O) {
                if (m.had_removal) {
                    return nullptr;
                }
                if (idx < m.members.size()) {
                    return &m.members[idx].second; // positional access into an object without removals: the member at that slot
                }
            }
            m   = MV();
            m.k = MV::A;
        }
        if (m.items.size() <= idx) {
            m.items.resize(idx + 1);
        }
        return &m.items[idx];
    }
    static void m_append(MV &m, const MV &x) {
        if (m.k != MV::A) {
            m   = MV();
            m.k = MV::A;
        }
        m.items.push_back(x);
    }
    static void m_merge_obj(MV &dst, const MV &src) {
        for (auto &e : src.members) {
            int i = dst.find(e.first);
            if (i < 0) {
                dst.members.push_back(e);
            } else {
                dst.members[(size_t)i].second = e.second;
            }
        }
    }
    static void m_compress(MV &m) {
        if (m.k == MV::A) {
            std::vector<MV> keep;
            for (auto &e : m.items) {
                if (e.k != MV::U) {
                    keep.push_back(e);
                }
            }
            m.items = keep;
            for (auto &e : m.items) {
                if (e.k == MV::A || e.k == MV::O) {
                    m_compress(e);
                }
            }
        } else if (m.k == MV::O) {
            m.had_removal = false;
            for (auto &e : m.members) {
                if (e.second.k == MV::A || e.second.k == MV::O) {
                    m_compress(e.second);
                }
            }
        }
    }
    // a deep copy compacts removed slots of every object in the tree
    static MV m_copy(const MV &m) {
        MV c = m;
        std::function<void(MV &)> fix = [&](MV &x) {
            if (x.k == MV::O) {
                x.had_removal = false;
                for (auto &e : x.members) {
                    fix(e.second);
                }
            } else if (x.k == MV::A) {
                for (auto &e : x.items) {
                    fix(e);
                }
            }
        };
        fix(c);
        return c;
    }
    static bool has_removal_anywhere(const MV &m) {
        if (m.k == MV::O) {
            if (m.had_removal) {
                return true;
            }
            for (auto &e : m.members) {
                if (has_removal_anywhere(e.second)) {
                    return true;
                }
            }
        } else if (m.k == MV::A) {
            for (auto &e : m.items) {
                if (has_removal_anywhere(e)) {
                    return true;
                }
            }
        }
        return false;
    }

    static MV lit_obj_k1() {
        MV o;
        o.k = MV::O;
        o.members.push_back({"k", mUI(1)});
        return o;
    }
    static MV lit_arr_1x() {
        MV a;
        a.k = MV::A;
        a.items.push_back(mUI(1));
        a.items.push_back(mS("x"));
        return a;
    }

    bool apply(int opi, std::string &err) {
        const OpD        &o    = ops()[(size_t)opi];
        const std::string path = o.path, act = o.act;
        if (path.compare(0, 2, "R0") == 0) {
            ctor_mark = (path == "R0:=") ? opi : -1;
        }
        if (path == "R0:=") {
            R0->~V();
            memset(raw0, 0xAB, sizeof raw0);
            if (act == "new V(7u)") {
                R0 = new (raw0) V(SizeT64{7});
                m0 = mUI(7);
            } else if (act == "new V(-3)") {
                R0 = new (raw0) V(SizeT64I{-3});
                m0 = mSI(-3);
            } else if (act == "new V(2.5)") {
                R0 = new (raw0) V(2.5);
                m0 = mD(2.5);
            } else if (act == "new V(true)") {
                R0 = new (raw0) V(true);
                m0 = mK(MV::T);
            } else if (act == "new V(nullptr)") {
                R0 = new (raw0) V(nullptr);
                m0 = mK(MV::N);
            } else if (act == "new V(ValueType::Null)") {
                R0 = new (raw0) V(ValueType::Null);
                m0 = mK(MV::N);
            } else if (act == "new V(String&&)") {
                R0 = new (raw0) V(VS("s"));
                m0 = mS("s");
            } else if (act == "new V(ptr,len)") {
                R0 = new (raw0) V("12", SizeT(2));
                m0 = mS("12");
            } else if (act == "new V(ObjectT&&)") {
                V::ObjectT ob;
                ob["k"] = V(SizeT64{1});
                R0      = new (raw0) V(std::move(ob));
                m0      = lit_obj_k1();
            } else if (act == "new V(ArrayT&&)") {
                V::ArrayT ar;
                ar += V(SizeT64{1});
                ar += V(VS("x"));
                R0 = new (raw0) V(std::move(ar));
                m0 = lit_arr_1x();
            } else if (act == "new V(ValueType::Array,2)") {
                R0   = new (raw0) V(ValueType::Array, SizeT(2));
                m0   = MV();
                m0.k = MV::A;
            } else if (act == "new V(ValueType::Object,2)") {
                R0   = new (raw0) V(ValueType::Object, SizeT(2));
                m0   = MV();
                m0.k = MV::O;
            } else if (act == "new V(const R1&)") {
                R0 = new (raw0) V((const V &)*R1);
                m0 = m_copy(m1);
            } else if (act == "new V(move(R1))") {
                R0 = new (raw0) V(std::move(*R1));
                m0 = m1;
                m1 = mU();
            } else if (act == "new V(StringView)") {
                R0 = new (raw0) V(StringView<char>("s", SizeT(1)));
                m0 = mS("s");
            } else if (act == "new V(unsigned short 9)") {
                R0 = new (raw0) V((unsigned short)9);
                m0 = mUI(9);
            } else if (act == "new V(float 0.5)") {
                R0 = new (raw0) V(0.5f);
                m0 = mD(0.5);
            } else {
                R0 = new (raw0) V();
                return false;
            }
        } else if (path == "R1") {
            if (act == "={a:1,c:[1]}") {
                V x;
                x["a"]    = SizeT64{1};
                x["c"][0] = SizeT64{1};
                *R1       = std::move(x);
                m1        = MV();
                m1.k      = MV::O;
                m1.members.push_back({"a", mUI(1)});
                MV arr;
                arr.k = MV::A;
                arr.items.push_back(mUI(1));
                m1.members.push_back({"c", arr});
            } else if (act == "=[1,\"x\"]") {
                V x;
                x += SizeT64{1};
                x += "x";
                *R1 = std::move(x);
                m1  = lit_arr_1x();
            } else if (act == "=\"str\"") {
                *R1 = "str";
                m1  = mS("str");
            } else if (act == "=5u") {
                *R1 = SizeT64{5};
                m1  = mUI(5);
            } else if (act == "=R0") {
                *R1 = (const V &)*R0;
                m1  = m_copy(m0);
            } else if (act == "=move(R0)") {
                *R1 = std::move(*R0);
                m1  = m0;
                m0  = mU();
            } else if (act == "[\"a\"]=2u") {
                (*R1)["a"] = SizeT64{2};
                m_key(m1, "a") = mUI(2);
            } else if (act == "Remove(\"a\")") {
                R1->Remove("a");
                if (m1.k == MV::O && m1.find("a") >= 0) {
                    m1.members.erase(m1.members.begin() + m1.find("a"));
                    m1.had_removal = true;
                }
            } else {
                return false;
            }
        } else {
            // resolve the location on both sides (operator[] creates what is missing)
            V  *x  = R0;
            MV *mx = &m0;
            if (path == "R0[\"a\"]" || path == "R0[\"a\"][\"b\"]") {
                x  = &((*x)["a"]);
                mx = &m_key(*mx, "a");
                if (path == "R0[\"a\"][\"b\"]") {
                    x  = &((*x)["b"]);
                    mx = &m_key(*mx, "b");
                }
            } else if (path == "R0[0]" || path == "R0[1]") {
                size_t idx = path == "R0[0]" ? 0 : 1;
                MV    *t   = m_idx(*mx, idx);
                if (t == nullptr) {
                    return false; // positional access into an object with removed entries: outside the contract
                }
                x  = &((*x)[SizeT(idx)]);
                mx = t;
            }
            V  &X = *x;
            MV &M = *mx;
            if (act == "=true") {
                X = true;
                M = mK(MV::T);
            } else if (act == "=false") {
                X = false;
                M = mK(MV::F);
            } else if (act == "=null") {
                X = nullptr;
                M = mK(MV::N);
            } else if (act == "=7u") {
                X = SizeT64{7};
                M = mUI(7);
            } else if (act == "=-3") {
                X = SizeT64I{-3};
                M = mSI(-3);
            } else if (act == "=2.5") {
                X = 2.5;
                M = mD(2.5);
            } else if (act == "=\"s\"") {
                X = "s";
                M = mS("s");
            } else if (act == "=\"\"") {
                X = "";
                M = mS("");
            } else if (act == "=\"12\"") {
                X = "12";
                M = mS("12");
            } else if (act == "={k:1}") {
                V t;
                t["k"] = SizeT64{1};
                X      = std::move(t);
                M      = lit_obj_k1();
            } else if (act == "={a:{a:1,b:2,c:3},x:0}") {
                // a member that has a member named like itself: merged into its holder it overwrites itself
                V t;
                t["a"]["a"] = SizeT64{1};
                t["a"]["b"] = SizeT64{2};
                t["a"]["c"] = SizeT64{3};
                t["x"]      = SizeT64{0};
                X           = std::move(t);
                MV in;
                in.k = MV::O;
                in.members.push_back({"a", mUI(1)});
                in.members.push_back({"b", mUI(2)});
                in.members.push_back({"c", mUI(3)});
                MV o;
                o.k = MV::O;
                o.members.push_back({"a", in});
                o.members.push_back({"x", mUI(0)});
                M = o;
            } else if (act == "=[1,\"x\"]") {
                V t;
                t += SizeT64{1};
                t += "x";
                X = std::move(t);
                M = lit_arr_1x();
            } else if (act == "=R1") {
                X = (const V &)*R1;
                M = m_copy(m1);
            } else if (act == "=move(R1)") {
                X  = std::move(*R1);
                M  = m1;
                m1 = mU();
            } else if (act == "=self") {
                V &alias = X;
                X        = alias;
                V &&rr   = std::move(X);
                X        = std::move(rr);
            } else if (act == "=String(\"s\")") {
                X = VS("s");
                M = mS("s");
            } else if (act == "=const String&") {
                VS s("12");
                X = (const VS &)s;
                M = mS("12");
            } else if (act == "=StringView") {
                X = StringView<char>("s", SizeT(1));
                M = mS("s");
            } else if (act == "=ArrayT&&") {
                V::ArrayT ar;
                ar += V(SizeT64{1});
                ar += V(VS("x"));
                X = std::move(ar);
                M = lit_arr_1x();
            } else if (act == "=ObjectT const&") {
                V::ObjectT ob;
                ob["k"] = V(SizeT64{1});
                X       = (const V::ObjectT &)ob;
                M       = lit_obj_k1();
            } else if (act == "=own array (const ArrayT& alias)") {
                if (M.k != MV::A) {
                    return false;
                }
                X = *((const V &)X).GetArray(); // the argument aliases the value's own storage
                M = m_copy(M);
            } else if (act == "=own object (const ObjectT& alias)") {
                if (M.k != MV::O) {
                    return false;
                }
                X = *((const V &)X).GetObject();
                M = m_copy(M);
            } else if (act == "=own string (const String& alias)") {
                if (M.k != MV::S) {
                    return false;
                }
                X = *((const V &)X).GetString();
            } else if (act == "=own first child (const Value&)" || act == "=move(own first child)") {
                // the argument is a part of the value it is assigned to
                MV *mc = nullptr;
                if (M.k == MV::A && !M.items.empty()) {
                    mc = &M.items[0];
                } else if (M.k == MV::O && !M.had_removal && !M.members.empty()) {
                    mc = &M.members[0].second;
                }
                if (mc == nullptr || mc->k == MV::U || mc->k == MV::P) {
                    return false; // a hole is not handed out by GetValue; a pointer element is looked through
                }
                V *c = X.GetValue(SizeT(0));
                if (c == nullptr) {
                    err = "GetValue(0) of a non-empty container returned null";
                    return true;
                }
                if (act == "=own first child (const Value&)") {
                    MV cm = m_copy(*mc);
                    X     = (const V &)*c;
                    M     = cm;
                } else {
                    MV cm = *mc;
                    X     = std::move(*c);
                    M     = cm;
                }
            } else if (act == "=move(own first child's container/string)" || act == "+=move(own first element's array/string)" ||
                       act == "Insert(\"c\",move(own first child))" || act == "Merge(move(own first child))" || act == "+=move(own first child)" ||
                       act == "[move(own first element's string)]") {
                // rvalue overloads whose argument is (the payload of) the value's own first child
                MV *mc = nullptr;
                if (M.k == MV::A && !M.items.empty()) {
                    mc = &M.items[0];
                } else if (M.k == MV::O && !M.had_removal && !M.members.empty()) {
                    mc = &M.members[0].second;
                }
                if (mc == nullptr || mc->k == MV::U || mc->k == MV::P) {
                    return false;
                }
                V *c = X.GetValue(SizeT(0));
                if (c == nullptr) {
                    err = "GetValue(0) of a non-empty container returned null";
                    return true;
                }
                const MV child = *mc; // as it is: a moved container keeps its removed slots
                if (act == "=move(own first child's container/string)") {
                    if (child.k == MV::O) {
                        X = std::move(*const_cast<V::ObjectT *>(c->GetObject()));
                    } else if (child.k == MV::A) {
                        X = std::move(*const_cast<V::ArrayT *>(c->GetArray()));
                    } else if (child.k == MV::S) {
                        X = std::move(*const_cast<VS *>(c->GetString()));
                    } else {
                        return false;
                    }
                    M = child;
                } else if (act == "+=move(own first element's array/string)") {
                    if (M.k != MV::A) {
                        return false;
                    }
                    if (child.k == MV::A) {
                        X += std::move(*const_cast<V::ArrayT *>(c->GetArray())); // the items move to the end, the element stays as []
                        MV empty;
                        empty.k    = MV::A;
                        M.items[0] = empty;
                        if (child.items.empty()) {
                            M.items.push_back(empty); // an empty array is appended as one (nested) element
                        }
                        for (auto &e : child.items) {
                            M.items.push_back(e);
                        }
                    } else if (child.k == MV::S) {
                        X += std::move(*const_cast<VS *>(c->GetString())); // the text moves into a new last element, the element stays as ""
                        M.items[0] = mS("");
                        M.items.push_back(mS(child.s));
                    } else {
                        return false;
                    }
                } else if (act == "Insert(\"c\",move(own first child))") {
                    if (M.k != MV::O || M.find("c") == 0) {
                        return false; // (the first member being "c" itself would be an insert of a value into its own place)
                    }
                    X.Insert(StringView<char>("c", SizeT(1)), std::move(*c));
                    M.members[0].second = mU();
                    m_key(M, "c")        = child;
                } else if (act == "Merge(move(own first child))") {
                    if (M.k == MV::A && child.k == MV::A) {
                        X.Merge(std::move(*c)); // the items move to the end, the element is left Undefined
                        M.items[0] = mU();
                        for (auto &e : child.items) {
                            if (e.k != MV::U) {
                                M.items.push_back(e);
                            }
                        }
                    } else if (M.k == MV::O && child.k == MV::O) {
                        X.Merge(std::move(*c));
                        M.members[0].second = mU();
                        m_merge_obj(M, child);
                    } else {
                        return false;
                    }
                } else if (act == "+=move(own first child)") {
                    if (M.k == MV::O && child.k == MV::O) {
                        X += std::move(*c);
                        M.members[0].second = mU();
                        m_merge_obj(M, child);
                    } else if (M.k == MV::A) {
                        X += std::move(*c); // appended as a new last element, a hole stays behind
                        M.items[0] = mU();
                        M.items.push_back(child);
                    } else {
                        return false;
                    }
                } else {
                    if (M.k != MV::A || child.k != MV::S) {
                        return false;
                    }
                    X[std::move(*const_cast<VS *>(c->GetString()))]; // an array indexed by a key becomes an object with that key
                    M   = MV();
                    M.k = MV::O;
                    M.members.push_back({child.s, mU()});
                }
            } else if (act == "Merge(self) (const Value&)") {
                // a value merged into itself: the items once more behind themselves / every member overwritten by itself
                if (M.k == MV::A) {
                    const MV c = m_copy(M);
                    X.Merge((const V &)X);
                    for (auto &e : c.items) {
                        if (e.k != MV::U) {
                            M.items.push_back(e);
                        }
                    }
                } else if (M.k == MV::O) {
                    const MV c = m_copy(M);
                    X.Merge((const V &)X);
                    m_merge_obj(M, c);
                } else {
                    return false;
                }
            } else if (act == "+=own first child (const Value&) [object]" || act == "Merge(own first child) (const Value&)") {
                // the argument is a member (element) of the receiver, handed over by const reference: it may be relocated by the
                // growth of the receiver, and - when it has a member named like itself - overwritten by the merge it feeds
                MV *mc = nullptr;
                if (M.k == MV::A && !M.items.empty()) {
                    mc = &M.items[0];
                } else if (M.k == MV::O && !M.had_removal && !M.members.empty()) {
                    mc = &M.members[0].second;
                }
                if (mc == nullptr || mc->k == MV::U || mc->k == MV::P) {
                    return false;
                }
                const V *c = ((const V &)X).GetValue(SizeT(0));
                if (c == nullptr) {
                    err = "GetValue(0) of a non-empty container returned null";
                    return true;
                }
                const MV child = m_copy(*mc);
                if (M.k == MV::O && child.k == MV::O) {
                    if (act[0] == '+') {
                        X += *c;
                    } else {
                        X.Merge(*c);
                    }
                    m_merge_obj(M, child);
                } else if (M.k == MV::A && child.k == MV::A && act[0] == 'M') {
                    X.Merge(*c);
                    for (auto &e : child.items) {
                        if (e.k != MV::U) {
                            M.items.push_back(e);
                        }
                    }
                } else {
                    return false;
                }
            } else if (act == "+=own first element (const Value&)") {
                if (M.k != MV::A || M.items.empty() || M.items[0].k == MV::U || M.items[0].k == MV::P) {
                    return false;
                }
                const V *c = ((const V &)X).GetValue(SizeT(0));
                if (c == nullptr) {
                    err = "GetValue(0) of a non-empty array returned null";
                    return true;
                }
                MV cm = m_copy(M.items[0]);
                X += *c;
                M.items.push_back(cm);
            } else if (act == "first element=whole (const Value&)") {
                if (M.k != MV::A || M.items.empty()) {
                    return false;
                }
                MV  whole = m_copy(M);
                V  &c     = X[SizeT(0)];
                c         = (const V &)X;
                M.items[0] = whole;
            } else if (act == "first member's object=whole object (const ObjectT&)") {
                // a descendant's table gets a snapshot of its ancestor's table (the receiver is stored inside the source)
                if (M.k != MV::O || M.had_removal || M.members.empty() || M.members[0].second.k != MV::O) {
                    return false;
                }
                V *c = X.GetValue(SizeT(0));
                if (c == nullptr || c->GetObject() == nullptr || ((const V &)X).GetObject() == nullptr) {
                    err = "GetValue(0)/GetObject() of an object with an object member returned null";
                    return true;
                }
                MV whole = m_copy(M);
                *const_cast<V::ObjectT *>(c->GetObject()) = *((const V &)X).GetObject();
                M.members[0].second = whole;
            } else if (act == "=ValueType::Null") {
                X = ValueType::Null; // the overload that takes a kind: the value becomes the empty value of that kind
                M = mK(MV::N);
            } else if (act == "=ValueType::Array") {
                X   = ValueType::Array;
                M   = MV();
                M.k = MV::A;
            } else if (act == "=ValueType::Object") {
                X   = ValueType::Object;
                M   = MV();
                M.k = MV::O;
            } else if (act == "=ValueType::String") {
                X = ValueType::String;
                M = mS("");
            } else if (act == "=1e19") {
                X = 1e19; // a real between 2^63 and 2^64
                M = mD(1e19);
            } else if (act == "=own first child's characters (const Char_T*)" || act == "[own first element's characters (const Char_T*)]") {
                // the text handed over is the storage of a string inside the value
                MV *mc = nullptr;
                if (M.k == MV::A && !M.items.empty()) {
                    mc = &M.items[0];
                } else if (M.k == MV::O && !M.had_removal && !M.members.empty()) {
                    mc = &M.members[0].second;
                }
                if (mc == nullptr || mc->k != MV::S) {
                    return false;
                }
                const V *c = ((const V &)X).GetValue(SizeT(0));
                if (c == nullptr) {
                    err = "GetValue(0) of a string member returned null";
                    return true;
                }
                if (c->StringStorage() == nullptr) {
                    return false; // an empty string that was moved from has no storage to hand over
                }
                const std::string text = mc->s;
                if (act == "=own first child's characters (const Char_T*)") {
                    X = c->StringStorage();
                    M = mS(text);
                } else {
                    if (M.k != MV::A) {
                        return false;
                    }
                    X[c->StringStorage()]; // an array indexed by a key becomes an object with that key
                    M   = MV();
                    M.k = MV::O;
                    M.members.push_back({text, mU()});
                }
            } else if (act == "=\"12x\"") {
                X = "12x"; // a number followed by something else is not a number
                M = mS("12x");
            } else if (act == "=18446744073709551615u") {
                X = SizeT64{18446744073709551615ULL};
                M = mUI(18446744073709551615ULL);
            } else if (act == "=\"18446744073709551615\"") {
                X = "18446744073709551615";
                M = mS("18446744073709551615");
            } else if (act == "+=7u") {
                X += SizeT64{7};
                m_append(M, mUI(7));
            } else if (act == "+=\"s\"") {
                X += "s";
                m_append(M, mS("s"));
            } else if (act == "+=null") {
                X += nullptr;
                m_append(M, mK(MV::N));
            } else if (act == "+=true") {
                X += true;
                m_append(M, mK(MV::T));
            } else if (act == "+=2.5") {
                X += 2.5;
                m_append(M, mD(2.5));
            } else if (act == "+=[] (ArrayT&&)") {
                V::ArrayT ar;
                X += std::move(ar);
                MV e;
                e.k = MV::A;
                m_append(M, e); // an empty array is appended as an element
            } else if (act == "+=[9,8] (ArrayT&&)" || act == "+=[9] (const ArrayT&)") {
                V::ArrayT ar;
                ar += V(SizeT64{9});
                if (act == "+=[9,8] (ArrayT&&)") {
                    ar += V(SizeT64{8});
                    X += std::move(ar);
                } else {
                    X += (const V::ArrayT &)ar;
                }
                if (M.k != MV::A) {
                    M   = MV();
                    M.k = MV::A;
                }
                M.items.push_back(mUI(9)); // a non-empty array is spliced
                if (act == "+=[9,8] (ArrayT&&)") {
                    M.items.push_back(mUI(8));
                }
            } else if (act == "+={c:3} (ObjectT&&)" || act == "+={a:4} (const ObjectT&)") {
                V::ObjectT ob;
                MV         mo;
                mo.k = MV::O;
                if (act == "+={c:3} (ObjectT&&)") {
                    ob["c"] = V(SizeT64{3});
                    mo.members.push_back({"c", mUI(3)});
                    X += std::move(ob);
                } else {
                    ob["a"] = V(SizeT64{4});
                    mo.members.push_back({"a", mUI(4)});
                    X += (const V::ObjectT &)ob;
                }
                if (M.k == MV::O) {
                    m_merge_obj(M, mo); // object += object merges
                } else {
                    m_append(M, mo);
                }
            } else if (act == "+=R1" || act == "+=move(R1)") {
                const bool mv = act == "+=move(R1)";
                if (M.k == MV::O && m1.k == MV::O) {
                    m_merge_obj(M, mv ? m1 : m_copy(m1)); // moved members keep their removed slots, copied ones are compacted
                } else {
                    m_append(M, mv ? m1 : m_copy(m1));
                }
                if (mv) {
                    X += std::move(*R1);
                    m1 = mU();
                } else {
                    X += (const V &)*R1;
                }
            } else if (act == "+=String&&") {
                X += VS("s");
                m_append(M, mS("s"));
            } else if (act == "+=StringView") {
                X += StringView<char>("12", SizeT(2));
                m_append(M, mS("12"));
            } else if (act == "Merge(R1)" || act == "Merge(move(R1))") {
                const bool mv = act == "Merge(move(R1))";
                if (M.k == MV::U) {
                    M.k = MV::A;
                }
                if (M.k == MV::A && m1.k == MV::A) {
                    for (auto &e : m1.items) {
                        if (e.k != MV::U) {
                            M.items.push_back(mv ? e : m_copy(e)); // a moved element keeps its removed slots
                        }
                    }
                } else if (M.k == MV::O && m1.k == MV::O) {
                    m_merge_obj(M, mv ? m1 : m_copy(m1));
                }
                if (mv) {
                    X.Merge(std::move(*R1));
                    m1 = mU();
                } else {
                    X.Merge((const V &)*R1);
                }
            } else if (act == "Remove(\"a\")" || act == "Remove(\"b\",1)" || act == "Remove(String \"a\")" || act == "Remove(String \"k\")") {
                std::string k = act == "Remove(\"b\",1)" ? "b" : (act == "Remove(String \"k\")" ? "k" : "a");
                if (act == "Remove(\"a\")") {
                    X.Remove("a");
                } else if (act == "Remove(\"b\",1)") {
                    X.Remove("b", SizeT(1));
                } else {
                    VS ks(k.c_str());
                    X.Remove(ks);
                }
                if (M.k == MV::O && M.find(k) >= 0) {
                    M.members.erase(M.members.begin() + M.find(k));
                    M.had_removal = true;
                }
            } else if (act == "RemoveIndex(0)" || act == "RemoveIndex(1)" || act == "RemoveIndex(Size)") {
                size_t idx = act == "RemoveIndex(0)" ? 0 : (act == "RemoveIndex(1)" ? 1 : (size_t)X.Size());
                if (M.k == MV::O) {
                    if (M.had_removal) {
                        return false; // slot numbers are not part of the contract any more
                    }
                    if (idx < M.members.size()) {
                        M.members.erase(M.members.begin() + (long)idx);
                        M.had_removal = true;
                    }
                } else if (M.k == MV::A && idx < M.items.size()) {
                    M.items[idx] = mU();
                }
                X.RemoveIndex(SizeT(idx));
            } else if (act == "Reset") {
                X.Reset();
                M = mU();
            } else if (act == "Compress") {
                X.Compress();
                m_compress(M);
            } else if (act == "Sort" || act == "Sort desc") {
                // only arrays of one kind / objects: order defined by C15; restrict to cases the model can predict
                const bool asc = act == "Sort";
                if (M.k == MV::O) {
                    if (M.had_removal) {
                        return false;
                    }
                    X.Sort(asc);
                    std::stable_sort(M.members.begin(), M.members.end(), [&](const std::pair<std::string, MV> &a, const std::pair<std::string, MV> &b) {
                        return asc ? a.first < b.first : b.first < a.first;
                    });
                } else if (M.k == MV::A) {
                    bool all_u = !M.items.empty();
                    for (auto &e : M.items) {
                        all_u = all_u && e.k == MV::UI;
                    }
                    if (!all_u) {
                        return false;
                    }
                    X.Sort(asc);
                    std::stable_sort(M.items.begin(), M.items.end(), [&](const MV &a, const MV &b) { return asc ? a.u < b.u : b.u < a.u; });
                } else {
                    X.Sort(asc);
                }
            } else if (act == "Get(\"b\",1)=5u") {
                X.Get("b", SizeT(1)) = SizeT64{5};
                m_key(M, "b")        = mUI(5);
            } else if (act == "Get(StringView \"c\")=\"s\"") {
                X.Get(StringView<char>("c", SizeT(1))) = "s";
                m_key(M, "c")                          = mS("s");
            } else if (act == "Insert(\"a\",6u)") {
                X.Insert(StringView<char>("a", SizeT(1)), V(SizeT64{6}));
                m_key(M, "a") = mUI(6);
            } else if (act == "[StringView \"b\"]=null") {
                X[StringView<char>("b", SizeT(1))] = nullptr;
                m_key(M, "b")                      = mK(MV::N);
            } else if (act == "[String&& \"c\"]=true") {
                X[VS("c")]    = true;
                m_key(M, "c") = mK(MV::T);
            } else if (act == "[const String& \"a\"]=-3") {
                VS ks("a");
                X[(const VS &)ks] = SizeT64I{-3};
                m_key(M, "a")     = mSI(-3);
            } else if (act == "SetPointerToValue(&T)") {
                X.SetPointerToValue(T);
                M   = MV();
                M.k = MV::P;
            } else if (act == "SetPointerToValue(nullptr)") {
                X.SetPointerToValue(nullptr);
                M = mU();
            } else if (act == "AddPointerToValue(&T)") {
                X.AddPointerToValue(T);
                MV p;
                p.k = MV::P;
                m_append(M, p);
            } else if (act == "SetPointerToValue(&TS string)") {
                X.SetPointerToValue(&TS);
                M   = MV();
                M.k = MV::P;
                M.u = 1;
            } else if (act == "AddPointerToValue(&TS string)" || act == "AddPointerToValue(&TU undefined)") {
                const bool und = act == "AddPointerToValue(&TU undefined)";
                X.AddPointerToValue(und ? &TU : &TS);
                MV p;
                p.k = MV::P;
                p.u = und ? 2 : 1;
                m_append(M, p);
            } else if (act == "SetPointerToValue(&TP pointer to T)") {
                X.SetPointerToValue(&TP);
                M   = MV();
                M.k = MV::P;
                M.u = 3;
            } else if (act == "AddPointerToValue(&TP pointer to T)" || act == "AddPointerToValue(&TPU pointer to undefined)") {
                const bool und = act == "AddPointerToValue(&TPU pointer to undefined)";
                X.AddPointerToValue(und ? &TPU : &TP);
                MV p;
                p.k = MV::P;
                p.u = und ? 4 : 3;
                m_append(M, p);
            } else {
                return false;
            }
        }
        if (err.empty()) {
            err = compare(*R0, m0, mt, "R0");
        }
        if (err.empty()) {
            err = compare(*R1, m1, mt, "R1");
        }
        if (err.empty()) {
            err = compare(*T, mt.t[0], mt, "T"); // the pointee is never modified through a pointer node
        }
        if (err.empty()) {
            StringStream<char> ss;
            R0->Stringify(ss);
            std::string got(ss.First() ? ss.First() : "", ss.Length());
            std::string want = mjson(m0, mt, true);
            if (got != want) {
                err = "R0.Stringify() is '" + got + "', model '" + want + "'";
            }
        }
        return true;
    }
    // A register that was just built by a constructor in dirty (0xAB) storage is a state of its own until the next operation on
    // it: bytes of the payload that the constructor did not write are not part of the document model, but they decide what
    // the next operation does. Without this mark such a state is merged with the same document reached by an assignment,
    // and is never expanded.
    std::string key() { return mdump(m0) + "|" + mdump(m1) + (ctor_mark >= 0 ? "|ctor" + std::to_string(ctor_mark) : std::string()); }
};


#endif
