// C17_tsan.cpp - free-running pass: the same thread bodies on real threads under ThreadSanitizer (supporting evidence;
// a cooperative scheduler's hand-offs would blind the detector, so this binary has no scheduler at all).
#include <thread>
#include <vector>
#include <cstdio>
#include <string>
#include "vx_main.hpp"
#include "sched/sched_rt.hpp"

namespace sched {
RunResult run_schedule(int, const std::vector<uint8_t> &) { return RunResult(); }
} // namespace sched

int main(int argc, char **argv) {
    vx::Args a    = vx::Args::parse(argc, argv);
    double   t0   = vx::now();
    int      ncfg = sched::body().configs();
    int      reps = atoi(a.get("reps", "50").c_str());
    vx::Part part;
    part.property = a.get("property", "C17");
    part.engine   = "sched";
    part.variant  = argv[0];
    part.tier     = a.tier;
    part.rule     = "free-running: 4 OS threads x " + std::to_string(reps) + " repetitions per configuration under ThreadSanitizer";
    uint64_t runs = 0;
    for (int c = 0; c < ncfg; c++) {
        for (int r = 0; r < reps; r++) {
            sched::body().setup(c, 4);
            sched::body().reset();
            std::vector<std::thread> th;
            for (int t = 0; t < 4; t++) {
                th.emplace_back([t] { sched::body().thread_main(t); });
            }
            for (auto &x : th) {
                x.join();
            }
            std::string err;
            if (!sched::body().check(err)) {
                part.acc.fail(sched::body().describe(c) + " free-running", err, "");
            }
            sched::body().teardown();
            ++runs;
        }
    }
    part.states      = (uint64_t)ncfg;
    part.transitions = runs * 4;
    part.evaluations = runs;
    part.distinct_extra = (uint64_t)ncfg;
    part.bounds      = "reps=" + std::to_string(reps);
    part.acc.sample(sched::body().describe(0));
    part.wall_s = vx::now() - t0;
    part.write(a.out.empty() ? "/dev/stdout" : a.out);
    return 0; // TSan itself exits non-zero (halt_on_error) when it sees a race
}
