// C17_body.cpp - the code under test for the scheduler: built with clang
// -fsanitize-coverage=trace-pc-guard,trace-loads,trace-stores (every load/store calls the runtime's hooks), or with
// -fsanitize=thread for the free-running pass.  Threads share one parsed tag array and the value(s); each has its own
// TemplateCore object and output stream (the pattern of Examples/Template/Template17.cpp).
#include <new>
#include <cstdlib>
#include <cstring>
#include <string>
#include <vector>
#include <functional>
#include "JSON.hpp"
#include "Template.hpp"
#include "../engine/sched/sched_rt.hpp"

using namespace Qentem;
using Core = TemplateCore<char, Value<char>, StringStream<char>>;
using TagBit = Tags::TagBit;

static const char *TPL[] = {
    "A{var:name}B{raw:html}C",
    "{math:{var:n}*2+1} {math:1/0} {math:{var:list[1]}%2}",
    "{svar:phrase,{var:name},{math:{var:n}+1},{raw:html}}",
    "{if case=\"{var:n}>3\" true=\"{var:name}\" false=\"no\"} {if case=\"{var:flag}\" true=\"T\" false=\"{raw:html}\"}",
    "<if case=\"{var:n}==5\">five<else if case=\"{var:n}>5\">more<else>less</if>",
    "<loop set=\"list\" value=\"v\">[{var:v}]</loop>",
    "<loop set=\"list\" value=\"v\" sort=\"descend\">{var:v},</loop>",
    "<loop set=\"list\" value=\"v\" sort=\"ascend\">{var:v};</loop><loop set=\"obj\" value=\"w\">{var:w}</loop>",
    "<loop set=\"people\" value=\"p\" group=\"team\">{var:p}:<loop set=\"p\" value=\"q\">{var:q[name]} </loop>|</loop>",
    "<loop set=\"people\" value=\"p\" group=\"team\" sort=\"ascend\">{var:p}=<loop set=\"p\" value=\"q\"><if case=\"{var:q[age]}>30\">{var:q[name]}</if></loop>;</loop>",
    "<loop set=\"matrix\" value=\"row\"><loop set=\"row\" value=\"c\">{math:{var:c}*{var:n}} </loop>/</loop>",
    "<if case=\"{var:flag}\"><loop set=\"obj\" value=\"v\">{var:v}{svar:phrase,{var:v},{var:n},{raw:html}}</loop></if>",
    "{var:missing}{raw:list}{var:obj[k1]}{var:matrix[1][0]}{var:people[0][name]}",
    "<loop set=\"obj\" value=\"v\" sort=\"descend\">{var:v}.</loop><loop set=\"list\" value=\"v\">{var:v}</loop>{var:html}",
    "plain text without tags <b> & \"quotes\"",
    "<loop value=\"top\">{var:top}</loop>",
    "<loop set=\"people\" value=\"p\" group=\"age\">{var:p}:<loop set=\"p\" value=\"q\">{var:q[name]}{var:q[team]}</loop>|</loop>", // keys that are numbers
    // reals whose two-decimal rendering carries into a new leading digit (9.996 -> 10): the formatter grows the stream by one unit
    // in the middle of its work, at every fill state of the destination
    "{var:r1}|{raw:r2}|{math:{var:r3}*1}|{var:r4}|{var:r1}{var:r1}",
};
static const char *VAL[] = {
    R"({"r1":9.996,"r2":0.999,"r3":-0.999,"r4":99999.995001,"name":"Q<e>","html":"<i>&</i>","n":5,"flag":true,"phrase":"{0} has {1} & {2}","list":[3,1,2],"obj":{"k2":"b","k1":"a","k3":[1]},"people":[{"name":"A","team":"x","age":31},{"name":"B","team":"y","age":25},{"name":"C","team":"x","age":40}],"matrix":[[1,2],[3,4]]})",
    R"({"r1":0.5,"r2":99.999,"r3":9.995,"r4":-9.996,"name":"other","html":"","n":7,"flag":false,"phrase":"no placeholders","list":[9,8,7,6],"obj":{"z":1},"people":[{"name":"D","team":"t","age":50}],"matrix":[[5]]})",
    R"({"name":"","n":-2.5,"flag":0,"list":[],"obj":{},"people":[],"matrix":[]})",
};

namespace {
constexpr int       MAXT = 4;
Array<TagBit>      *cache;
Value<char>        *vals[4];
Value<char>        *ptees[3]; // what the pointer members of value 3 point at
StringStream<char> *out[MAXT];
std::string         ref[MAXT];
std::string         cache_dump0, val_dump0[4];
const char         *tpl;
SizeT               tpl_len;
int                 nthreads, cfg_tpl, cfg_combo;
const Value<char>  *thread_val[MAXT];

// canonical dump of every field of every tag record, recursively
void dump_exprs(const Array<QExpression> &e, std::string &o);
void dump_tags(const Array<TagBit> &tags, std::string &o) {
    char b[160];
    o += "[";
    for (const TagBit *t = tags.First(); t != tags.End(); t++) {
        switch (t->GetType()) {
            case Tags::TagType::Variable:
            case Tags::TagType::RawVariable: {
                const auto &v = t->GetVariableTag();
                snprintf(b, sizeof b, "V%d(%u,%u,%u,%u)", (int)t->GetType(), v.Offset, v.Length, v.IDLength, v.Level);
                o += b;
                break;
            }
            case Tags::TagType::Math: {
                const auto &m = t->GetMathTag();
                snprintf(b, sizeof b, "M(%u,%u,", m.Offset, m.EndOffset);
                o += b;
                dump_exprs(m.Expressions, o);
                o += ")";
                break;
            }
            case Tags::TagType::SuperVariable: {
                const auto &s = t->GetSuperVariableTag();
                snprintf(b, sizeof b, "S(%u,%u,%u,%u,%u,%u,", s.Offset, s.EndOffset, s.Variable.Offset, s.Variable.Length, s.Variable.IDLength, s.Variable.Level);
                o += b;
                dump_tags(s.SubTags, o);
                o += ")";
                break;
            }
            case Tags::TagType::InLineIf: {
                const auto &i = t->GetInLineIfTag();
                snprintf(b, sizeof b, "I(%u,%u,%u,%u,%u,%u,%u,%u,", i.Offset, i.Length, i.TrueOffset, i.TrueLength, i.FalseOffset, i.FalseLength, i.TrueTagsStartID, i.FalseTagsStartID);
                o += b;
                dump_exprs(i.Case, o);
                dump_tags(i.SubTags, o);
                o += ")";
                break;
            }
            case Tags::TagType::Loop: {
                const auto &l = t->GetLoopTag();
                snprintf(b, sizeof b, "L(%u,%u,%u,%u,%u,%u,%u,%u,%u,%u,%u,%u,%u,", l.Offset, l.EndOffset, l.ContentOffset, l.ValueOffset, l.ValueLength, l.GroupOffset,
                         l.GroupLength, l.Options, l.Level, l.Set.Offset, l.Set.Length, l.Set.IDLength, l.Set.Level);
                o += b;
                dump_tags(l.SubTags, o);
                o += ")";
                break;
            }
            case Tags::TagType::If: {
                const auto &f = t->GetIfTag();
                snprintf(b, sizeof b, "F(%u,%u,", f.Offset, f.EndOffset);
                o += b;
                for (const auto *c = f.Cases.First(); c != f.Cases.End(); c++) {
                    snprintf(b, sizeof b, "c(%u,%u,", c->Offset, c->EndOffset);
                    o += b;
                    dump_exprs(c->Case, o);
                    dump_tags(c->SubTags, o);
                    o += ")";
                }
                o += ")";
                break;
            }
            default: o += "?";
        }
    }
    o += "]";
}
void dump_exprs(const Array<QExpression> &e, std::string &o) {
    char b[160];
    o += "<";
    for (const QExpression *x = e.First(); x != e.End(); x++) {
        snprintf(b, sizeof b, "e(%d,%d", (int)x->Type, (int)x->Operation);
        o += b;
        if (x->Type == QExpression::ExpressionType::SubOperation) {
            dump_exprs(x->SubExpressions, o);
        } else if (x->Type == QExpression::ExpressionType::Variable) {
            snprintf(b, sizeof b, ",v%u,%u,%u,%u", x->Variable.Offset, x->Variable.Length, x->Variable.IDLength, x->Variable.Level);
            o += b;
        } else {
            snprintf(b, sizeof b, ",n%llx,%u,%u", (unsigned long long)x->Value.Number.Natural, x->Value.Offset, x->Value.Length);
            o += b;
        }
        o += ")";
    }
    o += ">";
}
std::string value_dump(const Value<char> &v) {
    StringStream<char> ss;
    v.Stringify(ss, 17U);
    return std::string(ss.First() ? ss.First() : "", ss.Length());
}

// value 3 is value 0 with "list", "obj" and "people" replaced by pointers to separately owned values (the sets of the loops are
// then reached through SetPointerToValue members, as an application that shares sub-trees between documents has them)
static void make_value(int i, Value<char> &out, Value<char> **pt) {
    if (i < 3) {
        out = JSON::Parse(VAL[i], SizeT(strlen(VAL[i])));
        return;
    }
    out               = JSON::Parse(VAL[0], SizeT(strlen(VAL[0])));
    const char *nm[3] = {"list", "obj", "people"};
    for (int k = 0; k < 3; k++) {
        pt[k] = new Value<char>(out[nm[k]]);
        out[nm[k]].SetPointerToValue(pt[k]);
    }
}
int n_configs() { return (int)(sizeof(TPL) / sizeof(TPL[0])) * 4; }

void setup(int config, int nt) {
    cfg_tpl   = config / 4;
    cfg_combo = config % 4; // 0: all threads share value 0; 1: values 0,1,0..; 2: values 2,0,1; 3: all share value 3 (pointer members)
    nthreads  = nt;
    tpl       = TPL[cfg_tpl];
    tpl_len   = SizeT(strlen(tpl));
    cache     = new Array<TagBit>();
    Core::Parse(tpl, tpl_len, *cache);
    for (int i = 0; i < 4; i++) {
        vals[i] = new Value<char>();
        make_value(i, *vals[i], ptees);
        val_dump0[i] = value_dump(*vals[i]);
    }
    cache_dump0.clear();
    dump_tags(*cache, cache_dump0);
    for (int t = 0; t < nt; t++) {
        int vi        = cfg_combo == 0 ? 0 : (cfg_combo == 1 ? (t & 1) : (cfg_combo == 2 ? ((t + 2) % 3) : 3));
        thread_val[t] = vals[vi];
        out[t]        = new StringStream<char>();
        // serial reference: a fresh single render (own cache)
        StringStream<char> fresh;
        Template::Render(tpl, tpl_len, *thread_val[t], fresh);
        ref[t] = std::string("#pre#") + std::string(fresh.First() ? fresh.First() : "", fresh.Length());
    }
}
void reset() {
    for (int t = 0; t < nthreads; t++) {
        out[t]->Reset(); // every schedule starts from the same stream state (capacity included)
        *out[t] += "#pre#"; // pre-existing stream content that must survive
    }
}
void thread_main(int tid) {
    if (tid & 1) {
        // the public overload that takes a cache (parses only when the cache is empty; here it never is)
        Template::Render(tpl, tpl_len, *thread_val[tid], *out[tid], *cache);
        return;
    }
    Core core{tpl, tpl_len};
    core.Render(*cache, *thread_val[tid], *out[tid]);
}
bool check(std::string &err) {
    for (int t = 0; t < nthreads; t++) {
        std::string got(out[t]->First() ? out[t]->First() : "", out[t]->Length());
        if (got != ref[t]) {
            err = "thread " + std::to_string(t) + " rendered '" + got.substr(0, 200) + "', a fresh single render gives '" + ref[t].substr(0, 200) + "'";
            return false;
        }
    }
    std::string d;
    dump_tags(*cache, d);
    if (d != cache_dump0) {
        err = "the parsed tag cache was modified by rendering";
        return false;
    }
    for (int i = 0; i < 4; i++) {
        if (value_dump(*vals[i]) != val_dump0[i]) {
            err = "value " + std::to_string(i) + " was modified by rendering";
            return false;
        }
    }
    return true;
}
void teardown() {
    for (int t = 0; t < nthreads; t++) {
        delete out[t];
        out[t] = nullptr;
    }
    for (int i = 0; i < 4; i++) {
        delete vals[i];
    }
    for (int k = 0; k < 3; k++) {
        delete ptees[k];
    }
    delete cache;
}
std::string describe(int config) {
    return std::string("template #") + std::to_string(config / 4) + " '" + TPL[config / 4] + "' values " +
           (config % 4 == 0 ? "shared(0,0,0)" : (config % 4 == 1 ? "(0,1,0)" : (config % 4 == 2 ? "(2,0,1)" : "shared(3,3,3: pointer members)")));
}
// sequential histories: actions 0..7 = render value (a/2) into a fresh (even) or pre-filled (odd) stream through the
// current cache; 8 = replace the cache by a copy of itself and destroy the original; 9 = move the cache; 10..13 = render value
// (a-10) through Template::Render(content, length, value, stream, cache) with the parsed cache (storage, capacity and size of the
// tag array must stay as they are); 14 = empty the cache and let that overload parse it again (the dump must come out the same).
// Before the histories: every value rendered into a stream that already holds 0..72 units (every fill state of the
// stream's capacity steps) must give that text followed by the fresh render.
uint64_t sequential(int ti, int depth, std::string &err) {
    const char *t   = TPL[ti];
    const SizeT len = SizeT(strlen(t));
    Value<char>  v[4];
    Value<char> *pt[3] = {nullptr, nullptr, nullptr};
    std::string  vd[4], fresh[4];
    for (int i = 0; i < 4; i++) {
        make_value(i, v[i], pt);
        vd[i] = value_dump(v[i]);
        StringStream<char> f;
        Template::Render(t, len, v[i], f);
        fresh[i] = std::string(f.First() ? f.First() : "", f.Length());
    }
    uint64_t         steps = 0;
    std::vector<int> hist;
    for (int i = 0; i < 4 && err.empty(); i++) {
        for (unsigned fill = 0; fill <= 72 && err.empty(); fill++) {
            StringStream<char> ss;
            for (unsigned k = 0; k < fill; k++) {
                ss += char('a' + (k % 26));
            }
            const std::string before(ss.First() ? ss.First() : "", ss.Length());
            Template::Render(t, len, v[i], ss);
            ++steps;
            const std::string got(ss.First() ? ss.First() : "", ss.Length());
            if (got != before + fresh[i]) {
                err = "rendered into a stream holding " + std::to_string(fill) + " units gives '" + got.substr(0, 200) + "', those units and a fresh render give '" +
                      (before + fresh[i]).substr(0, 200) + "' (value " + std::to_string(i) + ")";
            } else if (value_dump(v[i]) != vd[i]) {
                err = "value " + std::to_string(i) + " was modified by rendering";
            }
        }
    }
    if (!err.empty()) {
        for (int k = 0; k < 3; k++) {
            delete pt[k];
        }
        return steps;
    }
    std::function<bool(int)> rec = [&](int d) -> bool {
        // replay the history on a fresh cache
        Array<TagBit> *c = new Array<TagBit>();
        Core::Parse(t, len, *c);
        std::string d0;
        dump_tags(*c, d0);
        bool ok = true;
        for (size_t k = 0; k < hist.size() && ok; k++) {
            int a = hist[k];
            if (a == 14) { // the documented lazy pattern: an empty cache is parsed by the first render through it
                c->Reset();
                a = 10;
            }
            if (a < 8 || a >= 10) {
                StringStream<char> ss;
                const int          vi  = (a < 8) ? (a / 2) : (a - 10);
                const bool         pre = (a < 8) ? ((a & 1) != 0) : (vi & 1) == 0;
                if (pre) {
                    ss += "#pre#";
                }
                const TagBit *st0  = c->Storage();
                const SizeT   cap0 = c->Capacity(), size0 = c->Size();
                if (a < 8) {
                    Core core{t, len};
                    core.Render(*c, v[vi], ss);
                } else {
                    Template::Render(t, len, v[vi], ss, *c); // public overload with a cache that is already parsed
                }
                std::string got(ss.First() ? ss.First() : "", ss.Length());
                std::string want = std::string(pre ? "#pre#" : "") + fresh[vi];
                if (k + 1 == hist.size()) {
                    ++steps;
                    if (got != want) {
                        err = "cached render gives '" + got.substr(0, 160) + "', a fresh render '" + want.substr(0, 160) + "'";
                        ok  = false;
                    } else if (size0 != 0 && (c->Storage() != st0 || c->Capacity() != cap0 || c->Size() != size0)) {
                        err = "rendering through a parsed cache reallocated or resized the tag array (other renders hold pointers into it)";
                        ok  = false;
                    }
                }
            } else if (a == 8) {
                Array<TagBit> *c2 = new Array<TagBit>(*c);
                delete c;
                c = c2;
            } else {
                Array<TagBit> *c2 = new Array<TagBit>(static_cast<Array<TagBit> &&>(*c));
                delete c;
                c = c2;
            }
            if (ok && k + 1 == hist.size()) {
                std::string d1;
                dump_tags(*c, d1);
                if (d1 != d0) {
                    err = "the tag cache changed (render/copy/move is not pure)";
                    ok  = false;
                }
                for (int i = 0; i < 4 && ok; i++) {
                    if (value_dump(v[i]) != vd[i]) {
                        err = "a value was modified by rendering";
                        ok  = false;
                    }
                }
            }
        }
        delete c;
        if (!ok) {
            err += " after history";
            for (int a : hist) {
                err += " " + std::to_string(a);
            }
            return false;
        }
        if (d == depth) {
            return true;
        }
        for (int a = 0; a < 15; a++) {
            hist.push_back(a);
            bool r = rec(d + 1);
            hist.pop_back();
            if (!r) {
                return false;
            }
        }
        return true;
    };
    rec(0);
    for (int k = 0; k < 3; k++) {
        delete pt[k];
    }
    return steps;
}
int n_templates() { return (int)(sizeof(TPL) / sizeof(TPL[0])); }
const sched::Body BODY = {n_configs, setup, reset, thread_main, check, teardown, describe, sequential, n_templates};
} // namespace

namespace sched {
const Body &body() { return BODY; }
} // namespace sched
