// json_gen.hpp - bounded-exhaustive generator of RFC 8259 documents with container top level (C06, C07).
//  stage A "shapes": every tree with <= K nodes, depth <= 3, arity <= 3, leaves from a small pool, object keys
//           from every key pattern (distinct / duplicate), x whitespace policies (none, SP everywhere,
//           LF TAB CR SP everywhere, and SP at exactly one gap for every gap);
//  stage B "scalars": every scalar of the large pools (strings with every escape form and plane, numerals at
//           every 64-bit boundary / extreme) in every syntactic context (array first/middle/last, object value,
//           object key, nested), x 3 whitespace policies.
#ifndef JSON_GEN_HPP
#define JSON_GEN_HPP
#include "langx.hpp"
#include <functional>

namespace jgen {
using langx::Text;
using langx::T;

struct Doc {
    std::vector<Text> toks; // structural tokens and scalars, in order
    std::vector<char> kind; // per token: '[' ']' '{' '}' ',' ':' 's'(scalar/key)
};

inline Text render(const Doc &d, int policy, int gap, std::vector<size_t> *closers = nullptr, bool edges = false) {
    // policy 0 none, 1 SP at all gaps, 2 "\n\t\r " at all gaps, 3 SP only at gap `gap`
    Text out;
    Text ws1 = T(" "), ws2 = T("\n\t\r ");
    for (size_t i = 0; i <= d.toks.size(); i++) {
        // gap i is before token i (gap toks.size() is after the last token) - skipped at the very end for C07 docs
        if (i < d.toks.size() || policy != 0) {
            if ((i > 0 && i < d.toks.size()) || edges) {
                if (policy == 1 || (policy == 3 && (int)i == gap)) {
                    out += ws1;
                } else if (policy == 2) {
                    out += ws2;
                }
            }
        }
        if (i < d.toks.size()) {
            if (closers && (d.kind[i] == ']' || d.kind[i] == '}')) {
                closers->push_back(out.size());
            }
            out += d.toks[i];
        }
    }
    return out;
}

struct Pools {
    std::vector<Text> small_leaves; // leaves for stage A
    std::vector<Text> strings;      // JSON string literals incl. quotes
    std::vector<Text> numerals;
    std::vector<Text> keywords;
};

inline Text esc_u(uint32_t u, bool lower) {
    const char *hx = lower ? "0123456789abcdef" : "0123456789ABCDEF";
    Text        t  = T("\\u");
    for (int i = 3; i >= 0; i--) {
        t.push_back((char32_t)hx[(u >> (4 * i)) & 0xF]);
    }
    return t;
}
inline Text esc_cp(uint32_t cp, bool lower) {
    if (cp < 0x10000) {
        return esc_u(cp, lower);
    }
    uint32_t v = cp - 0x10000;
    return esc_u(0xD800 + (v >> 10), lower) + esc_u(0xDC00 + (v & 0x3FF), lower);
}

inline Pools make_pools(bool thorough) {
    Pools p;
    p.small_leaves = {T("1"), T("\"a\""), T("true"), T("null"), T("-0.5")};
    p.keywords     = {T("true"), T("false"), T("null")};
    auto q         = [](const Text &body) { return T("\"") + body + T("\""); };
    // strings
    p.strings.push_back(q(T("")));
    p.strings.push_back(q(T("a")));
    p.strings.push_back(q(T("hello world")));
    p.strings.push_back(q(Text{0xE9}));                  // raw 2-byte
    p.strings.push_back(q(Text{0x20AC}));                // raw 3-byte
    p.strings.push_back(q(Text{0x1F600}));               // raw 4-byte / surrogate pair in UTF-16
    p.strings.push_back(q(Text{0x10FFFF}));
    p.strings.push_back(q(Text{0x7F}));
    for (const char *e : {"\\\"", "\\\\", "\\/", "\\b", "\\f", "\\n", "\\r", "\\t"}) {
        p.strings.push_back(q(T(e)));
        p.strings.push_back(q(T("x") + T(e) + T("y")));
    }
    p.strings.push_back(q(T("\\\"\\\\\\/\\b\\f\\n\\r\\t")));
    std::vector<uint32_t> cps = {0x0, 0x1, 0x1F, 0x20, 0x22, 0x41, 0x5C, 0x7F, 0x80, 0xE9, 0x7FF, 0x800, 0x20AC, 0xD7FF, 0xE000,
                                 0xFFFD, 0xFFFF, 0x10000, 0x1F600, 0x50000, 0x8FFFF, 0xD0000, 0x10FFFF};
    if (thorough) {
        for (uint32_t hi = 0xD800; hi <= 0xDBFF; hi += 0x40) {
            cps.push_back(0x10000 + ((hi - 0xD800) << 10) + 0x3FF);
            cps.push_back(0x10000 + ((hi - 0xD800) << 10));
        }
        for (uint32_t c = 0; c < 0x20; c++) {
            cps.push_back(c);
        }
    }
    for (uint32_t cp : cps) {
        p.strings.push_back(q(esc_cp(cp, false)));
        p.strings.push_back(q(esc_cp(cp, true)));
        p.strings.push_back(q(T("a") + esc_cp(cp, false) + T("b")));
        if (cp >= 0x20 && cp != '"' && cp != '\\') {
            p.strings.push_back(q(Text{cp} + esc_cp(cp, true) + Text{cp})); // raw + escape mixes
        }
    }
    p.strings.push_back(q(esc_cp(0x1F600, false) + esc_cp(0x1F601, true)));
    p.strings.push_back(q(T("\\u00e9\\u00E9")));
    // escapes of single surrogates (legal by the RFC grammar): each denotes that one unit; only a high one directly followed by
    // an escape from DC00 to DFFF is a pair
    for (const char *ls : {"\\uD83D\\u0041", "\\uD83D\\uD83D\\uDE00", "\\uD800\\u0441x", "\\uD83Dx", "\\uDE00", "\\uDBFF\\uDBFF", "a\\uD83D\\u00e9\\uDE00"}) {
        p.strings.push_back(q(T(ls)));
    }
    // numerals
    for (const char *n : {"0", "-0", "1", "-1", "12", "1.5", "-0.5", "1e2", "1E+2", "1e-2", "0.1", "9223372036854775807",
                          "9223372036854775808", "18446744073709551615", "18446744073709551616", "-9223372036854775808",
                          "-9223372036854775809", "1.7976931348623157e308", "5e-324", "4.9406564584124654e-324",
                          "123456789012345678901234567890", "0.1234567890123456789012345", "2.2250738585072014e-308",
                          "1e308", "1E308", "1.0", "10", "100", "1e0", "0e0", "0.0", "-0.0", "0E-5", "12345678901234567890",
                          "0.5", "2.5e-3", "6.02214076e23", "1e22", "1e23", "9007199254740993", "-9007199254740993",
                          // exponents written with leading zeros (RFC 8259: exp = e [ minus / plus ] 1*DIGIT)
                          "1e00005", "2.5E+00003", "1e-00002", "6.02e+00023", "1e0000000000000000000000002", "7E-000000000001", "1e00", "3e+0000300"}) {
        p.numerals.push_back(T(n));
    }
    // systematic small decimals: every two-digit fraction (leading zeros, trailing zeros, 09/90 shapes) under three integer parts
    for (const char *ip : {"0", "1", "12", "-7"}) {
        for (int f = 0; f < 100; f++) {
            char b[32];
            snprintf(b, sizeof b, "%s.%02d", ip, f);
            p.numerals.push_back(T(b));
        }
        for (const char *f3 : {"001", "009", "090", "900", "099", "0001", "5000", "0909"}) {
            p.numerals.push_back(T(ip) + T(".") + T(f3));
            p.numerals.push_back(T(ip) + T(".") + T(f3) + T("e2"));
            p.numerals.push_back(T(ip) + T(".") + T(f3) + T("E-2"));
        }
    }
    if (thorough) {
        for (int f = 0; f < 1000; f++) {
            char b[32];
            snprintf(b, sizeof b, "3.%03d", f);
            p.numerals.push_back(T(b));
            snprintf(b, sizeof b, "40.%03de1", f);
            p.numerals.push_back(T(b));
        }
        for (int e = -30; e <= 30; e++) {
            char b[32];
            snprintf(b, sizeof b, "1.25e%d", e);
            p.numerals.push_back(T(b));
            snprintf(b, sizeof b, "7E%+d", e);
            p.numerals.push_back(T(b));
        }
    }
    return p;
}

// --- stage A: shapes -------------------------------------------------------------------------------------
// A shape is generated recursively; callback receives every complete Doc.
struct ShapeGen {
    int                       max_nodes, max_depth = 3, max_arity = 3;
    const std::vector<Text>  *leaves;
    std::function<void(Doc &)> emit;
    Doc                       cur;

    static const std::vector<std::vector<const char *>> &key_patterns(int arity) {
        static std::vector<std::vector<const char *>> k1 = {{"a"}}, k2 = {{"a", "b"}, {"a", "a"}},
                                                      k3 = {{"a", "b", "c"}, {"a", "b", "a"}, {"a", "a", "b"}, {"a", "b", "b"}};
        return arity == 1 ? k1 : (arity == 2 ? k2 : k3);
    }
    void push(const Text &t, char k) {
        cur.toks.push_back(t);
        cur.kind.push_back(k);
    }
    void pop(size_t n) {
        cur.toks.resize(n);
        cur.kind.resize(n);
    }
    // generates one value using at most `budget` nodes; calls `k(used)` for each alternative
    void value(int budget, int depth, bool top, const std::function<void(int)> &k) {
        if (budget < 1) {
            return;
        }
        size_t mark = cur.toks.size();
        if (!top) {
            for (auto &l : *leaves) {
                push(l, 's');
                k(1);
                pop(mark);
            }
        }
        if (depth >= max_depth) {
            return;
        }
        for (int isobj = 0; isobj < 2; isobj++) {
            for (int arity = 0; arity <= max_arity && arity + 1 <= budget; arity++) {
                if (!isobj || arity == 0) {
                    push(T(isobj ? "{" : "["), isobj ? '{' : '[');
                    members(isobj, arity, 0, nullptr, budget - 1, depth, [&](int used) {
                        size_t m2 = cur.toks.size();
                        push(T(isobj ? "}" : "]"), isobj ? '}' : ']');
                        k(used + 1);
                        pop(m2);
                    });
                    pop(mark);
                } else {
                    for (auto &pat : key_patterns(arity)) {
                        push(T("{"), '{');
                        members(true, arity, 0, &pat, budget - 1, depth, [&](int used) {
                            size_t m2 = cur.toks.size();
                            push(T("}"), '}');
                            k(used + 1);
                            pop(m2);
                        });
                        pop(mark);
                    }
                }
            }
        }
    }
    void members(bool isobj, int arity, int i, const std::vector<const char *> *keys, int budget, int depth,
                 const std::function<void(int)> &k) {
        if (i == arity) {
            k(0);
            return;
        }
        size_t mark = cur.toks.size();
        if (i > 0) {
            push(T(","), ',');
        }
        if (isobj) {
            push(T("\"") + T((*keys)[(size_t)i]) + T("\""), 's');
            push(T(":"), ':');
        }
        // leave at least one node for each remaining member
        value(budget - (arity - i - 1), depth + 1, false, [&](int used) {
            members(isobj, arity, i + 1, keys, budget - used, depth, [&](int u2) { k(used + u2); });
        });
        pop(mark);
    }
    void run() {
        value(max_nodes, 0, true, [&](int) { emit(cur); });
    }
};

// --- stage B: scalar contexts ------------------------------------------------------------------------------
inline void scalar_contexts(const Text &s, bool is_string, const std::function<void(Doc &)> &emit) {
    auto mk = [&](std::initializer_list<std::pair<const char *, char>> parts) {
        Doc d;
        for (auto &p : parts) {
            if (p.second == 'S') {
                d.toks.push_back(s);
                d.kind.push_back('s');
            } else {
                d.toks.push_back(T(p.first));
                d.kind.push_back(p.second);
            }
        }
        emit(d);
    };
    mk({{"[", '['}, {"", 'S'}, {"]", ']'}});
    mk({{"[", '['}, {"1", 's'}, {",", ','}, {"", 'S'}, {"]", ']'}});
    mk({{"[", '['}, {"", 'S'}, {",", ','}, {"1", 's'}, {"]", ']'}});
    mk({{"[", '['}, {"", 'S'}, {",", ','}, {"", 'S'}, {"]", ']'}});
    mk({{"{", '{'}, {"\"a\"", 's'}, {":", ':'}, {"", 'S'}, {"}", '}'}});
    mk({{"{", '{'}, {"\"a\"", 's'}, {":", ':'}, {"1", 's'}, {",", ','}, {"\"b\"", 's'}, {":", ':'}, {"", 'S'}, {"}", '}'}});
    mk({{"{", '{'}, {"\"a\"", 's'}, {":", ':'}, {"", 'S'}, {",", ','}, {"\"a\"", 's'}, {":", ':'}, {"", 'S'}, {"}", '}'}});
    mk({{"[", '['}, {"[", '['}, {"", 'S'}, {"]", ']'}, {"]", ']'}});
    mk({{"{", '{'}, {"\"a\"", 's'}, {":", ':'}, {"[", '['}, {"", 'S'}, {"]", ']'}, {"}", '}'}});
    mk({{"[", '['}, {"{", '{'}, {"\"a\"", 's'}, {":", ':'}, {"", 'S'}, {"}", '}'}, {"]", ']'}});
    if (is_string) {
        mk({{"{", '{'}, {"", 'S'}, {":", ':'}, {"1", 's'}, {"}", '}'}});
        mk({{"{", '{'}, {"", 'S'}, {":", ':'}, {"1", 's'}, {",", ','}, {"\"b\"", 's'}, {":", ':'}, {"2", 's'}, {"}", '}'}});
        mk({{"{", '{'}, {"\"a\"", 's'}, {":", ':'}, {"{", '{'}, {"", 'S'}, {":", ':'}, {"", 'S'}, {"}", '}'}, {"}", '}'}});
        mk({{"{", '{'}, {"", 'S'}, {":", ':'}, {"1", 's'}, {",", ','}, {"", 'S'}, {":", ':'}, {"2", 's'}, {"}", '}'}});
    }
}

// Enumerates all documents of both stages; f(text, closer positions, policy). Deterministic order.
// `with_trailing_ws`: C06 also renders whitespace before the first and after the last token.
template <typename F>
inline void all_docs(int max_nodes, bool thorough, int64_t chunk, int64_t nchunks, bool edges, F &&f) {
    static Pools   pools_q = make_pools(false), pools_t = make_pools(true);
    const Pools   &P       = thorough ? pools_t : pools_q;
    int64_t        n       = 0;
    auto           each    = [&](Doc &d) {
        if ((n++ % nchunks) != chunk) {
            return;
        }
        int gaps = (int)d.toks.size();
        for (int policy = 0; policy < 3; policy++) {
            std::vector<size_t> closers;
            Text                t = render(d, policy, 0, &closers, edges);
            f(t, closers, policy);
        }
        for (int g = 1; g < gaps; g++) {
            std::vector<size_t> closers;
            Text                t = render(d, 3, g, &closers);
            f(t, closers, 3);
        }
    };
    ShapeGen sg;
    sg.max_nodes = max_nodes;
    sg.leaves    = &P.small_leaves;
    sg.emit      = each;
    sg.run();
    auto each3 = [&](Doc &d) {
        if ((n++ % nchunks) != chunk) {
            return;
        }
        for (int policy = 0; policy < 3; policy++) {
            std::vector<size_t> closers;
            Text                t = render(d, policy, 0, &closers, edges);
            f(t, closers, policy);
        }
    };
    for (auto &s : P.strings) {
        scalar_contexts(s, true, each3);
    }
    for (auto &s : P.numerals) {
        scalar_contexts(s, false, each3);
    }
    for (auto &s : P.keywords) {
        scalar_contexts(s, false, each3);
    }
}

// encode code points into units of C
template <typename C>
inline Text to_units(const Text &cps) {
    Text                  out;
    std::vector<uint32_t> tmp;
    for (char32_t c : cps) {
        tmp.clear();
        if (c >= 0xD800 && c <= 0xDFFF) {
            tmp.push_back(c); // never generated raw; kept for completeness
        } else {
            ref::encode(c, (int)sizeof(C), tmp);
        }
        for (auto u : tmp) {
            out.push_back(u);
        }
    }
    return out;
}
} // namespace jgen
#endif
