// C12 - a Value behaves as an abstract JSON document under every operation sequence (system in value_sys.hpp).
#include "value_sys.hpp"

int main(int argc, char **argv) {
    return vx::standard_main(argc, argv, [](const vx::Args &a) {
        vx::Plan   plan;
        const bool th    = a.thorough();
        const int  depth = atoi(a.get("depth", th ? "4" : "3").c_str());
        const long cap   = atol(a.get("cap", th ? "3000000" : "600000").c_str());
        plan.engine = "seqx";
        plan.rule = "breadth-first over operation histories (depth " + std::to_string(depth) + ", state cap " + std::to_string(cap) + ") of " +
                    std::to_string(VSys::num_ops()) + " operations: 55 actions (every assignment overload, +=, Merge, Remove x3, RemoveIndex, "
                    "Reset, Compress, Sort, Get, Insert, [] x4, pointer-to-value) at the paths R0, R0[\"a\"], R0[0] and a reduced set at "
                    "R0[\"a\"][\"b\"], R0[1]; 17 constructors into 0xAB-filled storage; 8 partner operations on R1. After every step both "
                    "registers and the pointee are compared node by node with an abstract document model through Type/IsX, Size, "
                    "GetValue(index|key|StringView), GetKey, SetKeyCharAndLength, GetString/Length/StringStorage/GetStringView, "
                    "GetUInt64/GetInt64/GetDouble/GetNumber/SetNumber/SetBool, iteration order, and Stringify; positional access into "
                    "objects only while no entry was removed";
        plan.bounds = "depth=" + std::to_string(depth) + " cap=" + std::to_string(cap);
        static seqx::Search<VSys> s;
        s.name        = "Value<char>";
        s.max_depth   = depth;
        s.max_states  = (size_t)cap;
        s.per_chunk   = 8;
        s.stage_index = 0;
        plan.stages.push_back(s.stage());
        plan.evals_counter = "transitions";
        plan.finish = [](vx::Part &p) {
            p.distinct_extra = p.acc.counters["states"];
            p.bounds += " | " + s.summary();
            if (s.capped) {
                p.exhaustive = false;
            }
        };
        plan.assumptions = {"slot numbers of objects are compared only while the object holds no removed entries (as the property states)",
                            "Sort is explored on objects and on arrays of unsigned numbers (order of mixed kinds is C15's subject)",
                            "numbers in the alphabet print identically under %.15g and the library (7, -3, 2.5, 0.5, ...)"};
        return plan;
    });
}
