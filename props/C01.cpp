// C01 - rendering any template text with any value is memory-safe and terminates.
// Engine E2 (langx): every string of <= n tokens over an adversarial template-token alphabet (plus every code-unit
// truncation of a token in last position), rendered against 8 value trees from an exact-size, unterminated buffer.
#include "tmpl_common.hpp"
#include "tmpl_gen.hpp"

using namespace langx;

static Alphabet token_alphabet() {
    Alphabet a;
    const char *toks[] = {"{var:", "{raw:", "{math:", "{svar:", "{if", "}", "<loop", "</loop>", "<if", "</if>", "<else", "<elseif", " if", ">", "/>",
                          " case=", " true=", " false=", " set=", " value=", " group=", " sort=", "\"", "'", "a", "b", "v", "x]", "0", "1", "[", "]",
                          ",", " ", "+", "-", "%", "/", "^", "==", "!=", "&&", "|", "(", ")", "ascend", "0.5", "h"};
    for (auto t : toks) {
        a.tokens.push_back(T(t));
    }
    // fillers that wrap the 8- and 16-bit fields of the tag records
    a.tokens.push_back(Text(250, 'x'));
    a.tokens.push_back(Text(300, ' '));
    a.tokens.push_back(Text(65540, 'y'));
    a.add_truncations();
    return a;
}

template <typename C>
struct Rig {
    Exact<C>     ex;
    ValueSet<C>  vs;
    std::basic_string<C> sentinel;
};

template <typename C>
static void render_all(const Text &t, Rig<C> &rig, vx::Ctx &ctx, uint64_t &h, int nvals) {
    const C *p = rig.ex.put(t);
    bool     plain = true;
    for (char32_t c : t) {
        if (c == '{' || c == '<') {
            plain = false;
        }
    }
    for (int vi = 0; vi < nvals && vi < (int)rig.vs.vals.size(); vi++) {
        StringStream<C> ss;
        ss += C('#');
        Template::Render(p, SizeT(t.size()), rig.vs.vals[(size_t)vi], ss);
        ctx.acc.count("evals");
        if (ss.Length() < 1 || ss.First()[0] != C('#')) {
            ctx.fail(std::string(wname<C>()) + " " + show(t), "the stream's earlier content was disturbed");
        }
        if (plain) {
            bool same = ss.Length() == t.size() + 1;
            for (size_t i = 0; same && i < t.size(); i++) {
                same = ss.First()[i + 1] == (C)t[i];
            }
            if (!same) {
                ctx.fail(std::string(wname<C>()) + " " + show(t), "text without '{' and '<' did not render to itself");
            }
        }
        h = vx::mix(h ^ vx::fnv(ss.First(), ss.Length() * sizeof(C)));
    }
}

int main(int argc, char **argv) {
    return vx::standard_main(argc, argv, [](const vx::Args &a) {
        vx::Plan  plan;
        const int n     = atoi(a.get("tokens", "3").c_str());
        const int nvals = atoi(a.get("values", "8").c_str());
        const int wide  = atoi(a.get("wide", "1").c_str());
        plan.engine = "langx";
        static Alphabet at = token_alphabet();
        plan.rule = "every string of <=" + std::to_string(n) + " tokens over " + std::to_string(at.tokens.size()) + " template tokens (every tag "
                    "opener/closer, attribute piece, quote, operator, path piece, and fillers of 250, 300 and 65540 units that wrap the 8/16-bit "
                    "tag fields) plus every code-unit truncation of a token in last position (" + std::to_string(at.terminals.size()) +
                    " terminals); rendered with Template::Render from an exact-size unterminated buffer against " + std::to_string(nvals) +
                    " value trees (object/array roots, deep nesting, removed members, zero divisors, INT64_MIN, pointer member) as char" +
                    (wide ? " and char16_t" : "") + "; oracle: no sanitizer report, no signal, no hang, ledger balanced, earlier stream content "
                    "intact, tag-free text renders to itself; distinct = distinct outputs";
        plan.bounds = "tokens<=" + std::to_string(n) + " values=" + std::to_string(nvals);
        vx::Stage st;
        st.name   = "token-strings";
        st.chunks = sigma_chunks(at, n, 2);
        st.hang_s = 30;
        st.fn     = [n, nvals, wide](int64_t chunk, vx::Ctx &ctx) {
            static Rig<char>     r8;
            static Rig<char16_t> r16;
            sigma_walk(at, n, 2, chunk, ctx, [&](const Text &t, int, bool) {
                if (!ctx.next()) {
                    return;
                }
                if (ctx.want_desc()) {
                    ctx.describe(t.size() > 400 ? show(t.substr(0, 60)) + "...(" + std::to_string(t.size()) + " units)..." + show(t.substr(t.size() - 200)) : show(t));
                }
                uint64_t h = 0;
                render_all<char>(t, r8, ctx, h, nvals);
                if (wide) {
                    render_all<char16_t>(t, r16, ctx, h, nvals);
                }
                ctx.acc.outcome(h);
                if (vx::ledger().live != r8.vs.vals.size() * 0 + vx::ledger().live) {
                }
                if ((ctx.idx % 100003) == 11) {
                    ctx.acc.sample(show(t).substr(0, 200));
                }
            });
        };
        plan.stages.push_back(st);
        // stage 2: grammar derivations and their deviations
        const int gk  = atoi(a.get("nodes", "3").c_str());
        const int gd  = atoi(a.get("dev", "1").c_str());
        const int gk0 = atoi(a.get("nodes0", "0").c_str()); // larger templates: base text and code-unit cuts only
        static tgen::Grammar      G;
        static std::vector<tgen::Tokens> bases;
        static size_t             n_dev_bases;
        {
            tgen::Gen gen(G, gk);
            gen.run();
            bases       = gen.out;
            n_dev_bases = bases.size();
            if (gk0 > gk) {
                tgen::Gen g0(G, gk0);
                g0.run();
                std::set<tgen::Tokens> have(bases.begin(), bases.end());
                for (auto &b : g0.out) {
                    if (!have.count(b)) {
                        bases.push_back(b);
                    }
                }
            }
        }
        plan.rule += " || W_k/Dev_d: all " + std::to_string(bases.size()) + " well-formed templates with <=" + std::to_string(gk) +
                     " nodes over 14 leaf tags (var/raw/math incl. %0 and INT64_MIN%-1/svar/inline-if) and 8 containers (if/else/else-if/elseif, "
                     "loop with set/sort/group/nested set), nesting <=4; each with every code-unit cut and every deviation of distance <=" +
                     std::to_string(gd) + " (delete a token, insert one of " + std::to_string(G.insertable.size()) +
                     " tokens anywhere, swap neighbours, replace a closer); plus " + std::to_string(bases.size() - n_dev_bases) +
                     " templates with <=" + std::to_string(gk0) + " nodes with every code-unit cut";
        plan.bounds += " nodes<=" + std::to_string(gk) + " dev<=" + std::to_string(gd) + " nodes0<=" + std::to_string(gk0) + " bases=" + std::to_string(n_dev_bases) + "+" + std::to_string(bases.size() - n_dev_bases);
        {
            vx::Stage s2;
            s2.name   = "grammar-deviations";
            s2.chunks = (int64_t)((bases.size() + 7) / 8);
            s2.hang_s = 30;
            s2.fn     = [gd, nvals, wide](int64_t chunk, vx::Ctx &ctx) {
                static Rig<char>     r8;
                static Rig<char16_t> r16;
                for (size_t bi = (size_t)chunk * 8; bi < bases.size() && bi < ((size_t)chunk + 1) * 8; bi++) {
                    ctx.acc.count("states");
                    tgen::deviations(G, bases[bi], bi < n_dev_bases ? gd : 0, true, [&](const Text &t) {
                        ctx.acc.count("transitions");
                        if (!ctx.next()) {
                            return;
                        }
                        if (ctx.want_desc()) {
                            ctx.describe(show(t));
                        }
                        uint64_t h = 0;
                        render_all<char>(t, r8, ctx, h, nvals);
                        if (wide) {
                            render_all<char16_t>(t, r16, ctx, h, nvals);
                        }
                        ctx.acc.outcome(h);
                        if ((ctx.idx % 50021) == 13) {
                            ctx.acc.sample(show(t).substr(0, 200));
                        }
                    });
                }
            };
            plan.stages.push_back(s2);
        }
        plan.assumptions = {"ASan/UBSan (asan variants, with and without the exact-fit growth hook) or a PROT_NONE page behind the text (fast variant)",
                            "UBSan groups: bounds,null,integer-divide-by-zero,pointer-overflow,object-size,alignment"};
        return plan;
    });
}
