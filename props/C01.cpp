// C01 - rendering any template text with any value is memory-safe and terminates.
// Engine E2 (langx): every string of <= n tokens over an adversarial template-token alphabet (plus every code-unit
// truncation of a token in last position), rendered against 8 value trees from an exact-size, unterminated buffer.
#include "tmpl_common.hpp"
#include "tmpl_gen.hpp"

using namespace langx;

static Alphabet token_alphabet() {
    Alphabet a;
    const char *toks[] = {"{var:", "{raw:", "{math:", "{svar:", "{if", "}", "<loop", "</loop>", "<if", "</if>", "<else", "<elseif", " if", ">", "/>",
                          " case=", " true=", " false=", " set=", " value=", " group=", " sort=", "\"", "'", "a", "b", "v", "x]", "0", "1", "[", "]",
                          ",", " ", "+", "-", "%", "/", "^", "==", "!=", "&&", "|", "(", ")", "ascend", "0.5", "h"};
    for (auto t : toks) {
        a.tokens.push_back(T(t));
    }
    // fillers that wrap the 8- and 16-bit fields of the tag records
    a.tokens.push_back(Text(250, 'x'));
    a.tokens.push_back(Text(300, ' '));
    a.tokens.push_back(Text(65540, 'y'));
    a.add_truncations();
    return a;
}

template <typename C>
struct Rig {
    Exact<C>     ex;
    ValueSet<C>  vs;
    std::basic_string<C> sentinel;
};

template <typename C>
static void render_all(const Text &t, Rig<C> &rig, vx::Ctx &ctx, uint64_t &h, int nvals) {
    const C *p = rig.ex.put(t);
    bool     plain = true;
    for (char32_t c : t) {
        if (c == '{' || c == '<') {
            plain = false;
        }
    }
    for (int vi = 0; vi < nvals && vi < (int)rig.vs.vals.size(); vi++) {
        StringStream<C> ss;
        ss += C('#');
        Template::Render(p, SizeT(t.size()), rig.vs.vals[(size_t)vi], ss);
        ctx.acc.count("evals");
        if (ss.Length() < 1 || ss.First()[0] != C('#')) {
            ctx.fail(std::string(wname<C>()) + " " + show(t), "the stream's earlier content was disturbed");
        }
        if (plain) {
            bool same = ss.Length() == t.size() + 1;
            for (size_t i = 0; same && i < t.size(); i++) {
                same = ss.First()[i + 1] == (C)t[i];
            }
            if (!same) {
                ctx.fail(std::string(wname<C>()) + " " + show(t), "text without '{' and '<' did not render to itself");
            }
        }
        h = vx::mix(h ^ vx::fnv(ss.First(), ss.Length() * sizeof(C)));
    }
}

int main(int argc, char **argv) {
    return vx::standard_main(argc, argv, [](const vx::Args &a) {
        vx::Plan  plan;
        const int n     = atoi(a.get("tokens", "3").c_str());
        const int nvals = atoi(a.get("values", "8").c_str());
        const int wide  = atoi(a.get("wide", "1").c_str());
        plan.engine = "langx";
        static Alphabet at = token_alphabet();
        plan.rule = "every string of <=" + std::to_string(n) + " tokens over " + std::to_string(at.tokens.size()) + " template tokens (every tag "
                    "opener/closer, attribute piece, quote, operator, path piece, and fillers of 250, 300 and 65540 units that wrap the 8/16-bit "
                    "tag fields) plus every code-unit truncation of a token in last position (" + std::to_string(at.terminals.size()) +
                    " terminals); rendered with Template::Render from an exact-size unterminated buffer against " + std::to_string(nvals) +
                    " value trees (object/array roots, deep nesting, removed members, zero divisors, INT64_MIN, pointer member) as char" +
                    (wide ? " and char16_t" : "") + "; oracle: no sanitizer report, no signal, no hang, ledger balanced, earlier stream content "
                    "intact, tag-free text renders to itself; distinct = distinct outputs";
        plan.bounds = "tokens<=" + std::to_string(n) + " values=" + std::to_string(nvals);
        vx::Stage st;
        st.name   = "token-strings";
        st.chunks = sigma_chunks(at, n, 2);
        st.hang_s = 30;
        st.fn     = [n, nvals, wide](int64_t chunk, vx::Ctx &ctx) {
            static Rig<char>     r8;
            static Rig<char16_t> r16;
            sigma_walk(at, n, 2, chunk, ctx, [&](const Text &t, int, bool) {
                if (!ctx.next()) {
                    return;
                }
                if (ctx.want_desc()) {
                    ctx.describe(t.size() > 400 ? show(t.substr(0, 60)) + "...(" + std::to_string(t.size()) + " units)..." + show(t.substr(t.size() - 200)) : show(t));
                }
                uint64_t h = 0;
                render_all<char>(t, r8, ctx, h, nvals);
                if (wide) {
                    render_all<char16_t>(t, r16, ctx, h, nvals);
                }
                ctx.acc.outcome(h);
                if (vx::ledger().live != r8.vs.vals.size() * 0 + vx::ledger().live) {
                }
                if ((ctx.idx % 100003) == 11) {
                    ctx.acc.sample(show(t).substr(0, 200));
                }
            });
        };
        plan.stages.push_back(st);
        // stage 2: grammar derivations and their deviations
        const int gk  = atoi(a.get("nodes", "3").c_str());
        const int gd  = atoi(a.get("dev", "1").c_str());
        const int gk0 = atoi(a.get("nodes0", "0").c_str()); // larger templates: base text and code-unit cuts only
        static tgen::Grammar      G;
        static std::vector<tgen::Tokens> bases;
        static size_t             n_dev_bases;
        {
            tgen::Gen gen(G, gk);
            gen.run();
            bases       = gen.out;
            n_dev_bases = bases.size();
            if (gk0 > gk) {
                tgen::Gen g0(G, gk0);
                g0.run();
                std::set<tgen::Tokens> have(bases.begin(), bases.end());
                for (auto &b : g0.out) {
                    if (!have.count(b)) {
                        bases.push_back(b);
                    }
                }
            }
        }
        plan.rule += " || W_k/Dev_d: all " + std::to_string(bases.size()) + " well-formed templates with <=" + std::to_string(gk) +
                     " nodes over 14 leaf tags (var/raw/math incl. %0 and INT64_MIN%-1/svar/inline-if) and 8 containers (if/else/else-if/elseif, "
                     "loop with set/sort/group/nested set), nesting <=4; each with every code-unit cut and every deviation of distance <=" +
                     std::to_string(gd) + " (delete a token, insert one of " + std::to_string(G.insertable.size()) +
                     " tokens anywhere, swap neighbours, replace a closer); plus " + std::to_string(bases.size() - n_dev_bases) +
                     " templates with <=" + std::to_string(gk0) + " nodes with every code-unit cut";
        plan.bounds += " nodes<=" + std::to_string(gk) + " dev<=" + std::to_string(gd) + " nodes0<=" + std::to_string(gk0) + " bases=" + std::to_string(n_dev_bases) + "+" + std::to_string(bases.size() - n_dev_bases);
        {
            vx::Stage s2;
            s2.name   = "grammar-deviations";
            s2.chunks = (int64_t)((bases.size() + 7) / 8);
            s2.hang_s = 30;
            s2.fn     = [gd, nvals, wide](int64_t chunk, vx::Ctx &ctx) {
                static Rig<char>     r8;
                static Rig<char16_t> r16;
                for (size_t bi = (size_t)chunk * 8; bi < bases.size() && bi < ((size_t)chunk + 1) * 8; bi++) {
                    ctx.acc.count("states");
                    tgen::deviations(G, bases[bi], bi < n_dev_bases ? gd : 0, true, [&](const Text &t) {
                        ctx.acc.count("transitions");
                        if (!ctx.next()) {
                            return;
                        }
                        if (ctx.want_desc()) {
                            ctx.describe(show(t));
                        }
                        uint64_t h = 0;
                        render_all<char>(t, r8, ctx, h, nvals);
                        if (wide) {
                            render_all<char16_t>(t, r16, ctx, h, nvals);
                        }
                        ctx.acc.outcome(h);
                        if ((ctx.idx % 50021) == 13) {
                            ctx.acc.sample(show(t).substr(0, 200));
                        }
                    });
                }
            };
            plan.stages.push_back(s2);
        }
        // stage 3: micro-grammars - small alphabets of larger pieces around one construct each, walked deeper than the
        // general token alphabet can be: the places where the parser keeps offsets of pieces that may not nest
        {
            struct Micro {
                const char              *name;
                std::vector<std::string> toks;
                int                      n;      // depth at --micro 0 (fast build)
                int                      n_asan; // depth at --micro 0 under ASan
                bool                     filler; // add the 65540-unit filler as a token
            };
            static const std::vector<Micro> micros = {
                {"inline-if", {"{if case=\"1\"", "{if case=\"{var:z}\"", " true=\"", " false=\"", " true=\"a\"", "\"", "'", "{var:a}", " {var:a}", "{var:a", "{math:1+", "}", "a"}, 6, 5, false},
                {"if-case", {"<if case=", "{if case=", "<else if case=", "=", "\"", "1", "=1", "\"1", "!=", "<=", ">=", "==", "&&", "!", "<", ">", "|", "x</if>", " true=+x+}", "("}, 5, 5, false},
                {"math-ends", {"{math:", "1", "a", "{var:a}", "!", "=", "<", ">", "&", "|", "(", ")", "}", "+", "-", "^", " "}, 5, 4, false},
                {"wide-inline-if", {"{if case=\"1\"", " false=\"", " true=\"", "\"", "a{var:a}b", "}", "{var:a}"}, 6, 5, true},
                {"loop-head", {"<loop", " set=\"b\"", " value=\"v\"", " value=\"loop1-value\"", " sort=\"ascend\"", " group=\"y\"", ">", "{var:v}", "{var:a} ", "</loop>", "\"", " "}, 5, 4, false},
                {"svar", {"{svar:p", "{svar:q", ",", "{var:a}", "{raw:s}", "{math:1+1}", "{var:a", "}", " ", "{0}"}, 6, 5, false},
                {"mixed-nesting", {"{svar:x", "{if case=\"1\" true=\"", "<if>", "<if case=\"1\">", "<loop>", "<loop value=\"v\">", "}", "<else", "<else>", "</if>", "</loop>", "{var:v}", "\""}, 6, 6, false},
                {"deep-levels", {"<loop set=\"b\" value=\"v\">", "@IF255@", "<loop set=\"b\" value=\"w\" sort=\"descend\">{var:w}</loop>", "@END255@", "{var:v};</loop>",
                                 "<loop set=\"g\" value=\"w\" group=\"y\">{var:w}</loop>", "<if case=\"1\">"}, 5, 5, false},
                {"many-sub-tags", {"{if case=\"1\"", "{if case=\"0\"", " true=\"@MANY@\"", " false=\"@MANY@\"", " true=\"{var:b}\"", " false=\"{var:b}\"", "\"", "}"}, 5, 4, false},
            };
            const int mk = atoi(a.get("micro", "0").c_str());
            static std::vector<Alphabet> mal;
            mal.clear();
            for (auto &m : micros) {
                Alphabet al;
                for (auto &t : m.toks) {
                    std::string tt = t;
                    const size_t at = tt.find("@MANY@");
                    if (at != std::string::npos) {
                        std::string many;
                        for (int k = 0; k < 257; k++) { // one more than an 8-bit count of sub-tags holds
                            many += "{var:a}";
                        }
                        tt.replace(at, 6, many);
                    }
                    if (tt == "@IF255@" || tt == "@END255@") {
                        std::string rep;
                        for (int k = 0; k < 255; k++) { // with the loop around them: one more open tag than an 8-bit level holds
                            rep += (tt == "@IF255@") ? "<if case=\"1\">" : "</if>";
                        }
                        tt = rep;
                    }
                    al.tokens.push_back(T(tt.c_str()));
                }
                if (m.filler) {
                    al.tokens.push_back(Text(65540, 'y'));
                }
                mal.push_back(al);
            }
            std::vector<vx::Stage> micro_stages;
            plan.rule += " || micro-grammars:";
            for (size_t mi = 0; mi < micros.size(); mi++) {
#ifdef VX_ASAN
                const int mn = micros[mi].n_asan + mk;
#else
                const int mn = micros[mi].n + mk;
#endif
                if (mn < 1) {
                    continue;
                }
                plan.rule += std::string(" ") + micros[mi].name + " (" + std::to_string(mal[mi].tokens.size()) + " pieces, <=" + std::to_string(mn) + ")";
                vx::Stage s3;
                s3.name   = std::string("micro-") + micros[mi].name;
                s3.chunks = sigma_chunks(mal[mi], mn, 2);
                s3.hang_s = 60;
                s3.fn     = [mi, mn](int64_t chunk, vx::Ctx &ctx) {
                    static Rig<char>     r8;
                    static Rig<char32_t> r32;
                    sigma_walk(mal[mi], mn, 2, chunk, ctx, [&](const Text &t, int, bool) {
                        if (!ctx.next()) {
                            return;
                        }
                        if (ctx.want_desc()) {
                            ctx.describe(t.size() > 400 ? show(t.substr(0, 100)) + "...(" + std::to_string(t.size()) + " units)..." + show(t.substr(t.size() - 200)) : show(t));
                        }
                        ctx.acc.count("states");
                        uint64_t h = 0;
                        render_all<char>(t, r8, ctx, h, 2);
                        if ((ctx.idx & 7) == 0) {
                            render_all<char32_t>(t, r32, ctx, h, 1);
                        }
                        ctx.acc.outcome(h);
                    });
                };
                micro_stages.push_back(s3);
            }
            // the micro-grammars run first: they are short, and what they leave of their share of the budget goes to the big stages
            plan.stages.insert(plan.stages.begin(), micro_stages.begin(), micro_stages.end());
            plan.bounds += " micro=" + std::to_string(mk);
        }
        {
            // N nested loops over an N-deep tree of two-item arrays (N = 1..12, 17): every enclosing loop runs on after the innermost
            // one was entered, so whatever a frame keeps of the per-render loop-item storage must survive the growth of that
            // storage; the leaves come out in order. Plain, sorted and with an <if> between the levels.
            vx::Stage sd;
            sd.name   = "deep-loop-nesting";
            sd.chunks = 13;
            sd.hang_s = 120;
            sd.fn     = [](int64_t chunk, vx::Ctx &ctx) {
                const int N = chunk < 12 ? (int)chunk + 1 : 17;
                for (int variant = 0; variant < 3; variant++) {
                    if (!ctx.next()) {
                        continue;
                    }
                    if (ctx.want_desc()) {
                        ctx.describe(std::to_string(N) + " nested loops over two-item arrays, variant " + std::to_string(variant));
                    }
                    ctx.acc.count("states");
                    // value: N-deep tree, leaves numbered in order; expected output "0,1,2,...,"
                    unsigned          next_leaf = 0;
                    std::string       want;
                    std::function<Value<char>(int)> build = [&](int d) -> Value<char> {
                        Value<char> a;
                        for (int k = 0; k < 2; k++) {
                            if (d == 1) {
                                a += SizeT64(next_leaf);
                                want += std::to_string(next_leaf++) + ",";
                            } else {
                                a += build(d - 1);
                            }
                        }
                        return a;
                    };
                    const int   depth = N > 12 ? 12 : N; // 17 loops: the inner five run over scalars' parents only once (set missing => nothing)
                    Value<char> root  = build(depth);
                    std::string tpl;
                    for (int d = 0; d < depth; d++) {
                        const std::string v = "v" + std::to_string(d);
                        tpl += "<loop" + (d ? " set=\"v" + std::to_string(d - 1) + "\"" : std::string()) + " value=\"" + v + "\"" +
                               ((variant == 1 && (d & 1)) ? " sort=\"ascend\"" : "") + ">";
                        if (variant == 2) {
                            tpl += "<if case=\"1\">";
                        }
                    }
                    tpl += "{var:v" + std::to_string(depth - 1) + "},";
                    for (int d = 0; d < depth; d++) {
                        tpl += variant == 2 ? "</if></loop>" : "</loop>";
                    }
                    if (N > 12) {
                        // five more loops around a set that does not exist, inside the innermost level: nothing is printed for them
                        std::string inner;
                        for (int d = 0; d < 5; d++) {
                            inner += "<loop set=\"missing\" value=\"m" + std::to_string(d) + "\">";
                        }
                        inner += "x";
                        for (int d = 0; d < 5; d++) {
                            inner += "</loop>";
                        }
                        const size_t at = tpl.find("{var:v");
                        tpl.insert(at, inner);
                    }
                    static langx::Exact<char> ex;
                    Text                      t(tpl.begin(), tpl.end());
                    const char               *p = ex.put(t);
                    StringStream<char>        ss;
                    ss += '#';
                    Template::Render(p, SizeT(t.size()), root, ss);
                    ctx.acc.count("evals");
                    const std::string got(ss.First() ? ss.First() : "", ss.Length());
                    if (got != "#" + want) {
                        ctx.fail("deep-loop-nesting N=" + std::to_string(N) + " variant " + std::to_string(variant),
                                 "rendered '" + got.substr(0, 120) + "...' (" + std::to_string(got.size()) + " units), the leaves in order are '#" + want.substr(0, 60) + "...' (" +
                                     std::to_string(want.size() + 1) + " units)");
                    }
                    ctx.acc.outcome(vx::hstr(got));
                }
            };
            plan.stages.insert(plan.stages.begin(), sd);
        }
        plan.assumptions = {"ASan/UBSan (asan variants, with and without the exact-fit growth hook) or a PROT_NONE page behind the text (fast variant)",
                            "UBSan groups: bounds,null,integer-divide-by-zero,pointer-overflow,object-size,alignment"};
        return plan;
    });
}
