# Per-property manifest wording (level, trusted base, technique).
HOOK_COMMITS = ['f267b7d']
NOT_APPLICABLE = {}
ENGINES = [
    {'name': 'seqx', 'path': 'engine/seqx.hpp', 'serves_properties': ['C12', 'C13', 'C14', 'C15', 'C16', 'C18', 'C19'],
     'kind_free_text': 'explicit-state breadth-first search over operation histories replayed on fresh real objects, canonical-state dedup, reference model compared after every transition'},
    {'name': 'langx', 'path': 'engine/langx.hpp', 'serves_properties': ['C01', 'C02', 'C03', 'C04', 'C05', 'C06', 'C07', 'C08'],
     'kind_free_text': 'bounded-exhaustive enumeration of input languages (all token strings up to a length, all grammar derivations up to a node bound plus all deviations up to a distance) run on the real entry points in exact-size buffers'},
    {'name': 'numx', 'path': 'engine/vx_main.hpp', 'serves_properties': ['C09', 'C10', 'C11', 'C19', 'C20'],
     'kind_free_text': 'complete enumeration of finite numeric lattices (all scalar values, all floats, described double sub-lattices) against libc / exact integer references'},
    {'name': 'sched', 'path': 'engine/sched', 'serves_properties': ['C17'],
     'kind_free_text': 'preemption-bounded controlled scheduler over compiler-inserted load/store hooks with conflict (race) monitor'},
]
TEXT = {
    'C02': {
        'level': 'Every template with <=3 (quick) / <=4 (thorough) nodes derivable from the documented grammar - 47 leaf tags ({var:}/{raw:} with name, index and mixed paths, resolvable or not; {math:}; {svar:} with var/raw/math sub-tags, missing and non-text phrases; {if} with sub-tags, variable-only and unevaluable cases), <if>/<else if>/<elseif />/<else>/<else /> over 7 cases, <loop> over arrays, objects (keys), sorted both ways, grouped, root set, missing/scalar sets and nested loops over the outer value, nesting <=3 - is rendered against 6 value trees (base, wrong kinds, numbers, array root, removed members, empty) as char and char32_t in SSE2, AVX2 and scalar builds and compared with an independent reference interpreter written from Documentation/Template.md. Where the document and the pinned suite leave a point open (unresolved {var:NAME[path]} inside an object loop; unevaluable inline-if case) the reference admits both readings, applied uniformly per rendering. Every template is rendered a second time through pointer twins of the value trees (every top-level member behind a pointer-to-value, the root handed in as a pointer) and through the other public Render overloads (terminated text, stream returned by value); array subscripts that are no index (huge, non-numeric) are among the leaf tags.',
        'design_ref': 'DESIGN.md §5 C02, Appendix A',
        'note': 'Reference interpreter (props/C02.cpp) and expression reference (ref/expr_ref.hpp) are the trusted base; reals need at most two fraction digits; sort judged on uniform arrays and objects. Known finding: inline-if attributes in an order other than case-first are documented but not implemented.',
        'technique': 'bounded-exhaustive grammar enumeration on the implementation with differential reference interpreter',
    },
    'C16': {
        'level': 'An allocation ledger plugged into the seam the library\'s own tests use (Memory::Allocate/Deallocate -> MemoryRecord) is checked between ALL transitions of breadth-first operation-history searches (depth 4 quick / 5 thorough, canonical-state dedup) over Array<int>, Array<Tracked>, String, StringStream, HArray, HList, Value (all of the C12-C14 alphabets) and a dedicated tag-cache lifetime system (parse 12 templates covering every tag kind, copy, move, self-assign, clear, reset, compress, drop, append, destroy in either order, render through either cache = fresh render); and after every text of the JSON unit space (every rejected text included) and the template token/deviation space (every malformed template included, rendered directly and through a copied cache whose original is destroyed first). Unknown release = foreign/double release; live blocks when all objects are gone = leak; the ASan variant adds use-after-release. An expression-arrays stage assigns every element of parsed expression arrays to every other by move and by copy.',
        'design_ref': 'DESIGN.md §5 C16',
        'note': 'The ledger sees Memory::Allocate/Deallocate only (the library has no other allocation path); histories and inputs up to the stated bounds.',
        'technique': 'explicit-state BFS over operation histories and bounded-exhaustive inputs on the implementation with an allocation-ledger invariant on every state',
    },
    'C17': {
        'level': 'Stateless model checking of the real renderer under a hand-written controlled scheduler: 2 and 3 renders run as coroutines; clang trace-loads/trace-stores instrumentation makes every load and store of the code under test a hook; every access to memory that is not the coroutine\'s own stack or its own allocation is a scheduling point and is entered into per-granule reader/writer sets. ALL schedules with <=1 (quick) / <=2 (thorough, 2 threads) preemptions are executed for 48 configurations (16 templates covering every tag kind incl. sort/group x shared value / different values). After each schedule: every output equals a fresh single render, the canonical dump of the tag cache and the values are unchanged, stream prefixes intact, and no shared granule was written by one render and touched by another. Zero conflicts on the serial schedule means every interleaving is equivalent to the serial one (no happens-before edges exist in the code), which makes the bounded result complete for the configuration. Plus all histories of <=3/4 sequential steps (cached renders into fresh/pre-filled streams, cache copy, cache move) per template, and a free-running ThreadSanitizer pass of the same bodies on 4 OS threads. Odd threads and five history operations render through the public Template::Render(content, length, value, stream, cache) overload (parsed cache; emptied cache parsed again); storage, capacity and size of the tag array must survive a render.',
        'design_ref': 'DESIGN.md §2 E4, §5 C17',
        'note': 'Sequential consistency; allocator internals and libc outside the monitor; schedules replay deterministically (a divergence while replaying a prefix is a harness error).',
        'technique': 'preemption-bounded exhaustive schedule exploration (CHESS-style) of the implementation with a data-race/conflict monitor',
    },
    'C03': {
        'level': 'Bounded-exhaustive: every string of <=5 (quick) / <=6 (thorough, 34 M) units over {& < > \" \' ; a m p l t g q u o s x NUL} through StringUtils::EscapeHTMLSpecialChars from exact-size buffers in three widths; every proper prefix and one-unit corruption of the five entities x tails x prefixes (entity look-alikes at every distance from the end); every string of <=3/4 units and all entity products through 8 printing positions of the renderer ({var:}, {raw:}, loop key, super-variable phrase, svar sub-tags, inline-if true/false sub-tags, echoed source of an unresolved tag). Oracle: no raw < > \" \', & only as the start of one of the five entities, decode(out)==decode(in), escaping is idempotent, {raw:} verbatim, stream prefix intact; a second build with QENTEM_AUTO_ESCAPE_HTML=0 requires {var:} == {raw:}. The string is also planted behind pointer-to-value members and items, a pointer root, array items, nested members and as a group name; a wide-units stage runs 16/32-bit units above 0xFF/0xFFFF whose low byte/half is a special character through the escaper and every position.',
        'design_ref': 'DESIGN.md §5 C03',
        'note': 'Strings over the stated alphabet only (all other units are copied unchanged by construction of the escaper\'s switch).',
        'technique': 'bounded-exhaustive input enumeration on the implementation with algebraic oracle',
    },
    'C01': {
        'level': 'Bounded-exhaustive exploration of the real parser and renderer under ASan/UBSan with the exact-fit growth hook (so slack capacity is a redzone) and in a fast guard-page build: every string of <=3 (quick) / <=4 (thorough) tokens over 49 template tokens (every tag opener/closer, attribute piece, quote, operator, path piece, fillers of 250/300/65540 units that wrap the 8/16-bit tag fields) plus every code-unit truncation of a token; every well-formed template with <=3/4 nodes over 14 leaf tags and 8 containers (nesting <=4) with every code-unit cut and every deviation of distance 1 (delete, insert one of 45 tokens anywhere, swap, replace a closer); each rendered from an unterminated exact-size buffer against 8 value trees (object/array roots, deep nesting, removed members, zero divisors, INT64_MIN, pointer member) as char and char16_t. Oracle: no sanitizer report, no signal (SIGFPE), no hang, earlier stream content intact, tag-free text renders to itself. Nine micro-grammars (a loop behind 255 open tags, inline-if, if-case with any quote character, expression endings, inline-if with a 65540-unit value, loop heads, super variables, mixed nesting of svar / inline-if / if / loop / else, inline-if with 257 sub-tags) walk 8-20 larger pieces each to 5-7 pieces deep, reaching constructs whose offsets the parser keeps in 8/16-bit fields and pieces that do not nest.',
        'design_ref': 'DESIGN.md §5 C01',
        'note': 'Texts inside the stated token/deviation bounds; two character widths in the token stage; SIMD variants affect only Memory::Copy (covered by C14).',
        'technique': 'bounded-exhaustive input enumeration (token prefix tree + grammar derivations with bounded deviations) on the implementation under sanitizers',
    },
    'C04': {
        'level': 'Every flat expression with <=3 (quick) / <=4 (thorough) operators over the 16 documented operators: all triples of 18 literal/parenthesised operands for <=2 operators, a covering rotation of 6 operands for 3-4, every pair of 12 variable operands (unsigned, negative, real, numeric string, true, false, null, text, empty, missing, nested) under every operator, == / != with bare words; 3 spacings each; evaluated by ParseExpressions+Evaluate, {math:}, <if case> and {if case}, which must agree. Reference: exact arithmetic on the operator sequence under the document\'s seven levels, returning the SET of values where the document leaves the association open (^ towers, ^ vs %, & vs |, comparisons among themselves, && vs ||).',
        'design_ref': 'DESIGN.md §5 C04',
        'note': 'Operands are dyadic rationals (exact IEEE arithmetic, no 64-bit overflow). Not judged: 0^0, 0^negative, 0^fraction, bases strictly between 0 and 1 (pinned as no value by EvaluateTest 19), bitwise operators on reals/negatives. Known finding: negative base with even negative exponent keeps the sign (pinned by EvaluateTest -8^-2).',
        'technique': 'bounded-exhaustive enumeration of operator sequences on the implementation, set-valued reference evaluator',
    },
    'C08': {
        'level': 'Every Value state reached by the C12 breadth-first search over operation histories (depth 3 quick / 4 thorough: removed members, array holes, pointer members, empty containers, containers ending in an omitted member) is stringified with 17 digits, parsed back and compared as a document (Undefined omitted, pointers dereferenced, numbers equal in value, doubles bit-identical); stringify-parse-stringify must be a fixed point; well-formed text must be accepted by a strict RFC 8259 reference parser. Plus a product set: 9 container shapes over every 7-bit unit as a one-unit string, all 2/3-unit strings over {\" \\ NUL 0x01 a}, multi-byte code points, 23 doubles (incl. -0, min subnormal, max, 1e21), 64-bit boundary integers and keywords, in four character widths.',
        'design_ref': 'DESIGN.md §5 C08',
        'note': 'Finite numbers only; depends on the number formatter/parser only through the 17-digit round trip (C11).',
        'technique': 'explicit-state BFS over reachable Value states plus bounded-exhaustive product set, round-trip oracle on the implementation',
    },
    'C18': {
        'level': 'Bounded-exhaustive: every array of <=3 (quick) / <=4 (thorough, 24 M arrays) objects drawn from 7 grouping values of different kinds with colliding texts (1, \"1\", 2, 2.5, true, null, \"x\") x 10 object shapes (key at every position, extra members of every kind, a removed member before/after the key, a member reset to undefined, the other member removed, key only). GroupBy and <loop group=> are compared with a reference partition (first-appearance order, members in input order minus the key); the source array must be unchanged and a dirty destination replaced. Grouping values include two reals that differ in the third decimal (11 values, 110 element kinds).',
        'design_ref': 'DESIGN.md §5 C18',
        'note': 'Every generated object contains the grouping key (property scope).',
        'technique': 'bounded-exhaustive input enumeration on the implementation with reference partition',
    },
    'C12': {
        'level': 'Explicit-state breadth-first search over histories of ~215 operations on two Value registers plus a pointee: 54 actions (every assignment overload, every += overload, Merge copy/move, Remove x3, RemoveIndex, Reset, Compress, Sort, Get, Insert, four [] overloads, pointer-to-value) applied at the root and at child paths reached through the creating accessors, 17 constructors executed in 0xAB-filled storage, partner operations on the second register. After every transition both registers and the pointee are compared node by node with an abstract document model through the whole public read API (kinds, sizes, lookups by index/key/StringView, keys, strings, all numeric/boolean coercions, iteration order, Stringify). Depth 3 (quick) / 4 (thorough, state cap reported). The alphabet includes a value merged into itself, const merges of a member into its holder (also a member named like its holder), a child table assigned its ancestor\'s table; the read set includes keyed reads of arrays with keys that are no index.',
        'design_ref': 'DESIGN.md §5 C12',
        'note': 'Positional access into objects is compared only while the object holds no removed entries (as the property states); SetPointerToValue(nullptr) and operator=(ValueType) are not in the alphabet (their meaning is not specified); Sort on mixed-kind arrays is left to C15.',
        'technique': 'explicit-state BFS over operation histories on the implementation with an abstract-document reference model compared after every transition',
    },
    'C15': {
        'level': 'Exhaustive over small alphabets on the real operators: all ordered pairs and all triples of the 341 strings of length <=4 over {a,b,0x01} through String, StringView, the const C* overloads and StringUtils::IsLess/IsGreater in char/char16_t/char32_t against the lexicographic reference (trichotomy, <=/>= unions, prefix-first, transitivity); all pairs and triples of 36 values of every kind including pointer-to-value; every array of length <=5 over 4 values (duplicates, prefix chain) through Array<int>, Array<String>, Value arrays, <loop sort>, HArray keys and Value object keys with and without a removed member, ascending and descending (ordered permutation, lookups afterwards, caller\'s value untouched). For 16/32-bit units the alphabet\'s fourth unit lies above 0xFF/0xFFFF with the low byte/half of \'a\'.',
        'design_ref': 'DESIGN.md §5 C15',
        'note': 'String units below 0x80 only (signedness of char is not part of the property).',
        'technique': 'exhaustive enumeration of pairs/triples/small arrays on the implementation',
    },
    'C13': {
        'level': 'Explicit-state breadth-first search (depth 4 quick / 5 thorough, canonical slot-layout dedup) over a 60-operation alphabet (all Insert overloads, get-or-create, Remove by key/index, Rename, merge by copy/move, Reserve/Resize/Expect/Compress/Clear/Reset, Sort both ways, copy/move construction and assignment) on two registers of HArray<String,String> and HList<String>, with keys chosen by the real hash function to collide at capacities 2/4/8 (plus empty key, embedded NUL, equal low-16-bit hashes). After every transition every lookup function is compared with an ordered-map model for all alphabet keys and an absent key, key<->index agreement and live iteration order are checked, and the structural invariants of the one-block table are verified (capacity power of two, every live item exactly once on the chain of Hash&(cap-1), acyclic chains, fresh stored hashes).',
        'design_ref': 'DESIGN.md §5 C13',
        'note': 'Built with -fno-access-control to read the bucket array. Slot numbers are never compared with a model; Resize is explored for n>=Size() and 0. Histories up to the stated depth.',
        'technique': 'explicit-state BFS over operation histories on the implementation, ordered-map reference model + structural invariants on every state',
    },
    'C14': {
        'level': 'Explicit-state breadth-first search (depth 5 quick / 6 thorough, canonical-state dedup) over ~45-operation alphabets on two registers each of Array<int>, Array<Tracked> (owning element that counts constructions/destructions), String<char|char16_t>, StringStream<char|char32_t>, including self-aliasing operations (a+=a, s.Write(s.First()..), stream<<stream); std::vector / std::basic_string reference models are compared after every transition through the public read API (contents, length, NUL terminator, Size<=Capacity, First/Last/End, iteration, all comparison operators, StringView over the same contents). Runs under ASan with and without the exact-fit growth hook, plus a fast SSE2 build. Memory::Copy and SetToZero: every length 0..4096 (quick 0..300) x 32 source x 32 destination misalignments with guard bytes against memcpy/memset in scalar, SSE2 and AVX2 builds. Array appended to itself by move; the wide String/StringStream instantiations use a unit above 0xFF/0xFFFF.',
        'design_ref': 'DESIGN.md §5 C14',
        'note': 'Histories up to the stated depth over the stated alphabets; capacities compared only where the API documents them; Tracked tolerates bitwise relocation.',
        'technique': 'explicit-state BFS over operation histories on the implementation with reference-model comparison; exhaustive length/alignment enumeration for the copy primitives',
    },
    'C19': {
        'level': 'Explicit-state breadth-first search on the real BigInt: for BigInt<uint8,16> over EVERY reachable internal state (words+index) to the fixed point with the complete alphabet (all 256 operands of = += -= *= /= |= &=, all shifts, wide set/add/sub/or/and, copy, move; 65536 states, ~170 M transitions); for <uint8,24|32>, <uint16,64>, <uint32,128>, <uint64,128|256|2048> to depth 4-5 over boundary operands and shifts with canonical-state dedup; after every transition the value, remainder, bit scans, all comparison operators, zero predicates and narrowing conversions are compared with a schoolbook reference. DoubleSize<uint8> divide/multiply exhaustively (8.4 M), 16/32/64-bit helpers on boundary lattices and on every divisor in [2^63, 2^63+4096) and the top 4096.',
        'design_ref': 'DESIGN.md §5 C19',
        'note': 'Transitions whose exact result does not fit the width are skipped (property scope). Intra-object overruns are visible via UBSan bounds in the asan variant; words above Index() are part of the state key but not of the value.',
        'technique': 'explicit-state BFS over operation histories on the implementation (fixed point for the 8-bit instantiation), reference-model comparison after every transition',
    },
    'C11': {
        'level': 'Exhaustive over finite lattices, bit-equality oracle: all 2^32 floats (thorough; quick: the 2^24 with zero low byte), all doubles with zero low word (2^32 thorough / 2^26 quick), 64 mantissa patterns x all 2047 exponents x sign, +-2 ulp around every power of two and ten, subnormal 2^k+-1, +-0, max: formatted with 17 (9) significant digits by the real formatter and parsed back by the real parser.',
        'design_ref': 'DESIGN.md §5 C11',
        'note': 'All floats are covered exhaustively in the thorough tier; doubles only on the described lattices (2^64 cannot be enumerated).',
        'technique': 'exhaustive enumeration of finite numeric lattices on the implementation (round-trip identity)',
    },
    'C10': {
        'level': 'Complete enumeration of described lattices on the real formatter against printf: sign x all 2047 binary exponents x 16/64 mantissa patterns x precision {0,1,2,3,6,15,17,40} / 0..40 x {Default,Fixed,SemiFixed}; k/1000 for k<=2e5 / 2e6 at precision 0..6; doubles at and next to every decimal tie 0.<1..20 digits>5 x 10^k (k=-324..307, 18 digit prefixes x 3/6 fills) printed at the tie\'s own precision in all formats; exact ties m/2^j (j<=41) and whole numbers o*5^a*2^b printed with one to three digits fewer than they have; every mantissa of <=10/12 leading bits at every binary exponent (Default 13-16, 32-35, 38-40 / 0..40); float subnormals at 28-40 digits; floats with 12 low zero bits / all 2^32 floats (Default-6, Default-9, Fixed-3); all 8/16-bit integers, 32-bit integers on a 2^24 lattice / all 2^32, 64-bit boundary lattice; inf/nan/zeros; every case appended to a stream holding 0, 1 or 7 sentinel units that must survive; char, char16_t and char32_t streams. ASan variant on a sub-lattice.',
        'design_ref': 'DESIGN.md §5 C10, §6',
        'note': 'Covers the stated lattices, not all 2^64 doubles (all floats in the thorough tier). glibc printf %g/%f trusted as correctly rounded. The defects the property text cites were genuine and are repaired by fix 39d17c3; both tiers are clean after it.',
        'technique': 'exhaustive enumeration of finite numeric lattices on the implementation, differential against printf',
    },
    'C09': {
        'level': 'Complete enumeration of described numeral lattices on the real converter: all significands up to 4-5 digits x every decimal-point position x every exponent -345..+325 x sign/exponent spellings; all integers within +-2000 of 0, 2^63, 2^64, 10^k; exact decimal expansions of doubles and of midpoints between adjacent doubles (ties) for 16-64 mantissa patterns x all 2047 binary exponents, truncated to 17..400..all digits; the 1.7e308..1e310 band; every string of <=6-7 units over {0 1 9 . e E + -}. Oracle: glibc strtod, consumed length, exact integer arithmetic. Zero-padded exponents (0..25 zeros); every accepted numeral is read again through the overload without an offset and from offset 2 of a longer buffer (same kind, bits, consumed length).',
        'design_ref': 'DESIGN.md §5 C09',
        'note': 'Covers the stated lattices, not all numerals; glibc strtod/printf trusted; ties either way (1 ulp); underflow-to-zero may be reported as NaN; exact-size buffers (ASan variant) catch over-reads.',
        'technique': 'exhaustive enumeration of finite numeral lattices on the implementation, differential against strtod',
    },
    'C05': {
        'level': 'Bounded-exhaustive exploration of the real parser: every string of <=N code units over a 31-unit JSON alphabet (N=5/6), every string of <=M tokens over 27 JSON tokens plus all code-unit truncations (M=4/5), and nesting families up to depth 4096, each parsed in 4 character widths from an exact-size, unterminated buffer. Any access outside the text is fatal (ASan redzone / PROT_NONE page); hangs are caught by a progress watchdog; the result must be Undefined or free of Undefined nodes; the allocation ledger must balance.',
        'design_ref': 'DESIGN.md §5 C05',
        'note': 'Covers texts inside the stated bounds only; reads before the buffer are visible only in the ASan variant; UBSan groups bounds,null,pointer-overflow,alignment,object-size,integer-divide-by-zero on.',
        'technique': 'bounded-exhaustive input enumeration (prefix-tree walk) on the implementation under ASan/guard pages',
    },
    'C06': {
        'level': 'All RFC 8259 container documents with <=K nodes (depth<=3, arity<=3, all duplicate-key patterns) x whitespace policies, plus every scalar of large string/numeral pools (all escape forms, all planes, 64-bit boundaries, extremes) in every syntactic context, parsed in UTF-8/16/32 and compared structurally with an independent strict reference parser (itself cross-checked against python json.loads on each run). Every document is also parsed through the terminated-text overload and twice through one caller-supplied stream; numerals with zero-padded exponents and escapes of single surrogates (judged for UTF-16/32) are in the pools.',
        'design_ref': 'DESIGN.md §5 C06',
        'note': 'Trusted: ref/json_ref.hpp (+python cross-check), glibc strtod. Numerals beyond the double range are not generated.',
        'technique': 'bounded-exhaustive grammar enumeration with differential reference parser',
    },
    'C07': {
        'level': 'For every generated valid container document: all proper prefixes (code point and UTF-8 code-unit cuts), every non-whitespace 7-bit unit and 7 whitespace look-alikes as suffix, every closing bracket swapped or removed must yield Undefined; plus every string of <=N units over the JSON alphabet: any accepted text must be a complete tree that survives Stringify+Parse. A quote-inside-escape stage rejects strings whose closing quote stands among the four units behind a \\u.',
        'design_ref': 'DESIGN.md §5 C07',
        'note': 'Lenient number forms (+1, 0x1F, .5) are complete values for this parser and outside the statement\'s family.',
        'technique': 'bounded-exhaustive enumeration of rejection families on the implementation',
    },
    'C20': {
        'level': 'Complete enumeration: all 1,112,064 Unicode scalar values x 4 character types x {direct encoder, \\u escapes in upper/lower/mixed hex, alone and embedded, through JSON::Parse and JSONUtils::UnEscape} are executed on the implementation and compared unit-for-unit with a reference encoder. The space is finite and fully covered, so inside the stated forms this is a decision, not a sample.',
        'design_ref': 'DESIGN.md §5 C20',
        'note': 'Trusted: the 20-line reference encoder, itself compared against python3 str.encode for every scalar value on each run; wchar_t is 4 bytes here; thorough tier repeats the space under ASan/UBSan.',
        'technique': 'exhaustive enumeration of the finite input space on the implementation (explicit-state, stateless)',
    },
}
