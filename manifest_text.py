# Per-property manifest wording (level, trusted base, technique).
HOOK_COMMITS = []
NOT_APPLICABLE = {}
ENGINES = [
    {'name': 'seqx', 'path': 'engine/seqx.hpp', 'serves_properties': ['C12', 'C13', 'C14', 'C15', 'C16', 'C18', 'C19'],
     'kind_free_text': 'explicit-state breadth-first search over operation histories replayed on fresh real objects, canonical-state dedup, reference model compared after every transition'},
    {'name': 'langx', 'path': 'engine/langx.hpp', 'serves_properties': ['C01', 'C02', 'C03', 'C04', 'C05', 'C06', 'C07', 'C08'],
     'kind_free_text': 'bounded-exhaustive enumeration of input languages (all token strings up to a length, all grammar derivations up to a node bound plus all deviations up to a distance) run on the real entry points in exact-size buffers'},
    {'name': 'numx', 'path': 'engine/vx_main.hpp', 'serves_properties': ['C09', 'C10', 'C11', 'C19', 'C20'],
     'kind_free_text': 'complete enumeration of finite numeric lattices (all scalar values, all floats, described double sub-lattices) against libc / exact integer references'},
    {'name': 'sched', 'path': 'engine/sched', 'serves_properties': ['C17'],
     'kind_free_text': 'preemption-bounded controlled scheduler over compiler-inserted load/store hooks with conflict (race) monitor'},
]
TEXT = {
    'C20': {
        'level': 'Complete enumeration: all 1,112,064 Unicode scalar values x 4 character types x {direct encoder, \\u escapes in upper/lower/mixed hex, alone and embedded, through JSON::Parse and JSONUtils::UnEscape} are executed on the implementation and compared unit-for-unit with a reference encoder. The space is finite and fully covered, so inside the stated forms this is a decision, not a sample.',
        'design_ref': 'DESIGN.md §5 C20',
        'note': 'Trusted: the 20-line reference encoder, itself compared against python3 str.encode for every scalar value on each run; wchar_t is 4 bytes here; thorough tier repeats the space under ASan/UBSan.',
        'technique': 'exhaustive enumeration of the finite input space on the implementation (explicit-state, stateless)',
    },
}
