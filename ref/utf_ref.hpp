// utf_ref.hpp - reference UTF encoders (independent of Qentem; cross-checked against python's str.encode by
// tools/gen_utf_ref.py -> build/utf_ref.bin at the start of every C20 run).
#ifndef UTF_REF_HPP
#define UTF_REF_HPP
#include <cstdint>
#include <string>
#include <vector>

namespace ref {
inline bool is_scalar(uint32_t cp) { return cp <= 0x10FFFF && !(cp >= 0xD800 && cp <= 0xDFFF); }

// encode one code point into units of width W bytes (1: UTF-8, 2: UTF-16, 4: UTF-32)
inline void encode(uint32_t cp, int width, std::vector<uint32_t> &out) {
    if (width == 1) {
        if (cp < 0x80) {
            out.push_back(cp);
        } else if (cp < 0x800) {
            out.push_back(0xC0 | (cp >> 6));
            out.push_back(0x80 | (cp & 0x3F));
        } else if (cp < 0x10000) {
            out.push_back(0xE0 | (cp >> 12));
            out.push_back(0x80 | ((cp >> 6) & 0x3F));
            out.push_back(0x80 | (cp & 0x3F));
        } else {
            out.push_back(0xF0 | (cp >> 18));
            out.push_back(0x80 | ((cp >> 12) & 0x3F));
            out.push_back(0x80 | ((cp >> 6) & 0x3F));
            out.push_back(0x80 | (cp & 0x3F));
        }
    } else if (width == 2) {
        if (cp < 0x10000) {
            out.push_back(cp);
        } else {
            uint32_t v = cp - 0x10000;
            out.push_back(0xD800 + (v >> 10));
            out.push_back(0xDC00 + (v & 0x3FF));
        }
    } else {
        out.push_back(cp);
    }
}
} // namespace ref
#endif
