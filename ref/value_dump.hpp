// value_dump.hpp - canonical text of a Qentem::Value tree through its public read API only.
//   U undefined | T F N | u<dec> | i<dec> | d<hex bits> | "units" | [v,v] | {"k":v,...} | *<pointee>
// Removed object members / reset array elements are shown as '~' when show_holes is set, else omitted.
#ifndef VALUE_DUMP_HPP
#define VALUE_DUMP_HPP
#include <string>
#include <cstring>
#include <cstdio>
#include <type_traits>

namespace ref {

template <typename C>
inline void dump_units(const C *p, size_t n, std::string &o) {
    o += '"';
    char b[16];
    for (size_t i = 0; i < n; i++) {
        uint32_t u = (uint32_t)(typename std::make_unsigned<C>::type)p[i];
        if (u >= 0x20 && u < 0x7f && u != '"' && u != '\\') {
            o += char(u);
        } else {
            snprintf(b, sizeof b, "\\%X;", u);
            o += b;
        }
    }
    o += '"';
}

template <typename V>
inline bool has_undefined(const V &v);

template <typename V>
inline void dump(const V &v, std::string &o, bool show_holes = true, int depth = 0) {
    using namespace Qentem;
    using C = typename std::remove_cv<typename std::remove_pointer<decltype(v.StringStorage())>::type>::type;
    char b[40];
    if (depth > 64) {
        o += "<deep>";
        return;
    }
    switch (v.Type()) {
        case ValueType::Undefined:
            o += 'U';
            break;
        case ValueType::True:
            o += 'T';
            break;
        case ValueType::False:
            o += 'F';
            break;
        case ValueType::Null:
            o += 'N';
            break;
        case ValueType::UIntLong:
            snprintf(b, sizeof b, "u%llu", (unsigned long long)v.GetUInt64());
            o += b;
            break;
        case ValueType::IntLong:
            snprintf(b, sizeof b, "i%lld", (long long)v.GetInt64());
            o += b;
            break;
        case ValueType::Double: {
            double             d = v.GetDouble();
            unsigned long long u;
            memcpy(&u, &d, 8);
            snprintf(b, sizeof b, "d%016llx", u);
            o += b;
            break;
        }
        case ValueType::String:
            dump_units(v.StringStorage(), v.Length(), o);
            break;
        case ValueType::Array: {
            o += '[';
            const auto *arr = v.GetArray();
            bool        first = true;
            for (SizeT i = 0; i < arr->Size(); i++) {
                const V &e = arr->First()[i];
                if (e.Type() == ValueType::Undefined && !show_holes) {
                    continue;
                }
                if (!first) {
                    o += ',';
                }
                first = false;
                if (e.Type() == ValueType::Undefined) {
                    o += '~';
                } else {
                    dump(e, o, show_holes, depth + 1);
                }
            }
            o += ']';
            break;
        }
        case ValueType::Object: {
            o += '{';
            const auto *obj   = v.GetObject();
            bool        first = true;
            for (SizeT i = 0; i < obj->Size(); i++) {
                const auto *item = obj->GetItem(i);
                if (item == nullptr || item->Value.Type() == ValueType::Undefined) {
                    if (show_holes) {
                        if (!first) {
                            o += ',';
                        }
                        first = false;
                        if (item == nullptr) {
                            o += '~';
                        } else {
                            dump_units(item->Key.First(), item->Key.Length(), o);
                            o += ":~";
                        }
                    }
                    continue;
                }
                if (!first) {
                    o += ',';
                }
                first = false;
                dump_units(item->Key.First(), item->Key.Length(), o);
                o += ':';
                dump(item->Value, o, show_holes, depth + 1);
            }
            o += '}';
            break;
        }
        case ValueType::ValuePtr: {
            o += '*';
            // the public API forwards reads through the pointer; dump what it forwards to
            if (v.IsObject() || v.IsArray()) {
                o += v.IsObject() ? "{obj size " : "[arr size ";
                o += std::to_string(v.Size());
                o += v.IsObject() ? "}" : "]";
            } else if (v.IsString()) {
                dump_units(v.StringStorage(), v.Length(), o);
            } else if (v.IsUndefined()) {
                o += 'U';
            } else {
                snprintf(b, sizeof b, "n%g", v.GetDouble());
                o += b;
            }
            break;
        }
    }
}

template <typename V>
inline std::string dump(const V &v, bool show_holes = true) {
    std::string o;
    dump(v, o, show_holes);
    return o;
}

// true when the tree contains an Undefined node anywhere (a "partially built tree" for a parser result)
template <typename V>
inline bool has_undefined(const V &v) {
    using namespace Qentem;
    switch (v.Type()) {
        case ValueType::Undefined:
            return true;
        case ValueType::Array: {
            const auto *arr = v.GetArray();
            for (SizeT i = 0; i < arr->Size(); i++) {
                if (has_undefined(arr->First()[i])) {
                    return true;
                }
            }
            return false;
        }
        case ValueType::Object: {
            const auto *obj = v.GetObject();
            for (SizeT i = 0; i < obj->Size(); i++) {
                const auto *item = obj->GetItem(i);
                if (item == nullptr || has_undefined(item->Value)) {
                    return true;
                }
            }
            return false;
        }
        default:
            return false;
    }
}
} // namespace ref
#endif
