// expr_ref.hpp - reference evaluator for template expressions (shared by C04 and C02): exact arithmetic on an operator
// sequence under the document's seven levels; returns the SET of values where the document leaves the association open.
#ifndef EXPR_REF_HPP
#define EXPR_REF_HPP
#include <string>
#include <vector>
#include <cmath>
#include <cstdlib>

// ---------------------------------------------------------------------------------------------------------
// reference values
struct RV {
    bool        has    = false; // a defined numeric value
    bool        unspec = false; // the documented semantics do not determine this case: not judged
    bool        text   = false; // a text operand (only meaningful next to == / !=)
    std::string str;
    int         kind = 0; // 0 unsigned, 1 signed, 2 real
    long double v    = 0;
    bool        inexact = false; // a rounding happened on the way (e.g. 3/2.5): IEEE results depend on the association
};
static RV num(long double v, int kind) {
    RV r;
    if (!((kind == 0 && v >= 0 && v <= 18446744073709551615.0L) || fabsl(v) < 9.0e18L)) {
        r.unspec = true; // outside 64 bits: the property's restriction
        return r;
    }
    r.has  = true;
    // reals are computed in IEEE double: round after every operation; whole numbers of the unsigned / signed kind are held
    // exactly in 64 bits by the implementation (and exactly in a long double here)
    r.v    = (kind == 2 || v != truncl(v)) ? (long double)(double)v : v;
    r.kind = kind;
    return r;
}
static RV none() { return RV(); }
static RV unspecified() {
    RV r;
    r.unspec = true;
    return r;
}
static bool is_int(long double v) { return v == floorl(v); }

static bool g_judge_negneg = false;
static const char *OPS[16] = {"||", "&&", "==", "!=", ">=", "<=", ">", "<", "|", "&", "+", "-", "*", "/", "%", "^"};
// documented levels (higher binds tighter): or/and 1; comparisons 2; bitwise 3; add/sub 4; mul/div 5; rem/exp 6
static const int LEVEL[16] = {1, 1, 2, 2, 2, 2, 2, 2, 3, 3, 4, 4, 5, 5, 6, 6};

static RV apply_exact(int op, const RV &a, const RV &b);
static RV apply(int op, const RV &a, const RV &b) {
    if (a.unspec || b.unspec) {
        return unspecified();
    }
    const std::string o = OPS[op];
    const bool        arith = (o == "+" || o == "-" || o == "*" || o == "/");
    if ((a.inexact || b.inexact) && !arith) {
        return unspecified(); // a comparison, remainder, power or logic on a rounded value may flip with the association
    }
    RV r = apply_exact(op, a, b);
    if (r.has && arith) {
        r.inexact = a.inexact || b.inexact;
        if (o == "/" && b.has && b.v != 0) {
            long double q = a.v / b.v;
            if (!((long double)(double)q == q && q * b.v == a.v)) {
                r.inexact = true;
            }
        }
    }
    return r;
}
static RV apply_exact(int op, const RV &a, const RV &b) {
    const std::string o = OPS[op];
    if (o == "==" || o == "!=") {
        RV   r;
        bool eq;
        // a side "is a number" when it is a numeric kind; strings (numeric or not), booleans and null carry a text view
        if (a.text && b.text) {
            eq = a.str == b.str;
        } else if (a.text || b.text) {
            // numeric comparison: the text side has to be a number itself
            const RV &t = a.text ? a : b;
            const RV &n = a.text ? b : a;
            if (!n.has) {
                return none();
            }
            if (!t.has) {
                return none(); // text that is not a number cannot be compared numerically
            }
            eq = t.v == n.v;
        } else {
            if (!a.has || !b.has) {
                return none();
            }
            eq = a.v == b.v;
        }
        return num((o == "==") == eq ? 1 : 0, 0);
    }
    if (!a.has || !b.has) {
        return none();
    }
    auto kind3 = [&](long double v) { return (a.kind == 2 || b.kind == 2) ? 2 : ((a.kind == 1 || b.kind == 1 || v < 0) ? 1 : 0); };
    if (o == "+") {
        return num(a.v + b.v, kind3(a.v + b.v));
    }
    if (o == "-") {
        return num(a.v - b.v, kind3(a.v - b.v));
    }
    if (o == "*") {
        return num(a.v * b.v, kind3(a.v * b.v));
    }
    if (o == "/") {
        if (b.v == 0) {
            return none();
        }
        return num(a.v / b.v, 2);
    }
    if (o == "%") {
        long double x = truncl(a.v), y = truncl(b.v);
        if (y == 0) {
            return none();
        }
        return num(fmodl(x, y), 1);
    }
    if (o == "^") {
        if (a.v == 0 && !is_int(b.v)) {
            return unspecified(); // 0 to a fractional power
        }
        if (!is_int(b.v)) {
            return none(); // fractional power
        }
        if (fabsl(a.v) > 0 && fabsl(a.v) < 1) {
            // "No power of fraction at the moment": the pinned suite (EvaluateTest 19: 0.25^3) fixes 'no value' for a base
            // strictly between 0 and 1, ordinary arithmetic has a value; neither is judged
            return unspecified();
        }
        if (a.v < 0 && b.v < 0 && !g_judge_negneg) {
            // the pinned suite fixes -8^-2 = -0.015625 (sign kept for an even negative exponent), which contradicts ordinary
            // arithmetic for the literal -8; judged once by the dedicated stage (a known finding), not in every composite
            return unspecified();
        }
        if (a.v == 0) {
            if (b.v < 0) {
                return unspecified(); // 1/0 in disguise: not pinned by the document
            }
            if (b.v == 0) {
                return unspecified(); // 0^0
            }
            return num(0, a.kind);
        }
        long double r = powl(fabsl(a.v), fabsl(b.v));
        if (b.v < 0) {
            r = 1 / r;
        }
        if (a.v < 0 && fmodl(fabsl(b.v), 2) == 1) {
            r = -r;
        }
        return num(r, (b.v < 0 || a.kind == 2) ? 2 : (r < 0 ? 1 : 0));
    }
    if (o == "&" || o == "|") {
        if (!is_int(a.v) || !is_int(b.v) || a.v < 0 || b.v < 0 || a.kind == 2 || b.kind == 2) {
            return unspecified();
        }
        unsigned long long x = (unsigned long long)a.v, y = (unsigned long long)b.v;
        return num((long double)(o == "&" ? (x & y) : (x | y)), 0);
    }
    if (o == "&&") {
        return num((a.v > 0 && b.v > 0) ? 1 : 0, 0);
    }
    if (o == "||") {
        return num((a.v > 0 || b.v > 0) ? 1 : 0, 0);
    }
    bool c = o == ">" ? a.v > b.v : (o == "<" ? a.v < b.v : (o == ">=" ? a.v >= b.v : a.v <= b.v));
    return num(c ? 1 : 0, 0);
}

// the set of values of a flat expression under every association the document admits
using RSet = std::vector<RV>;
static void add_unique(RSet &s, const RV &r) {
    for (auto &x : s) {
        if (x.has == r.has && x.unspec == r.unspec && x.text == r.text && x.v == r.v && x.str == r.str && x.inexact == r.inexact) {
            return;
        }
    }
    s.push_back(r);
}
// operands[i], ops[i] between operand i and i+1
static RSet eval_level(const std::vector<RSet> &operands, const std::vector<int> &ops, int level);
static RSet eval_run(const std::vector<RSet> &operands, const std::vector<int> &ops) {
    // all operators have the same documented level
    const size_t n = ops.size();
    if (n == 0) {
        return operands[0];
    }
    bool same = true, left_only = true;
    for (size_t i = 0; i < n; i++) {
        same = same && ops[i] == ops[0];
        std::string o = OPS[ops[i]];
        // repeated - / % and + - , * / mixes: ordinary left-to-right
        left_only = left_only && (o == "+" || o == "-" || o == "*" || o == "/");
    }
    std::string o0 = OPS[ops[0]];
    if (same && (o0 == "%")) {
        left_only = true;
    }
    if (same && (o0 == "&&" || o0 == "||" || o0 == "&" || o0 == "|")) {
        left_only = true; // associative
    }
    if (left_only) {
        RSet acc = operands[0];
        for (size_t i = 0; i < n; i++) {
            RSet nx;
            for (auto &a : acc) {
                for (auto &b : operands[i + 1]) {
                    add_unique(nx, apply(ops[i], a, b));
                }
            }
            acc = nx;
        }
        // '*' and '/' share a documented level; an implementation may still take the divisions first (a * (b / c)), which is
        // the same number but can round differently. If that order is not exact, the left-to-right value is not either.
        bool has_mul = false, has_div = false;
        for (size_t i = 0; i < n; i++) {
            has_mul = has_mul || std::string(OPS[ops[i]]) == "*";
            has_div = has_div || std::string(OPS[ops[i]]) == "/";
        }
        if (has_mul && has_div) {
            std::vector<RSet> factors;
            RSet              cur = operands[0];
            for (size_t i = 0; i < n; i++) {
                if (std::string(OPS[ops[i]]) == "/") {
                    RSet nx;
                    for (auto &a : cur) {
                        for (auto &b : operands[i + 1]) {
                            add_unique(nx, apply(ops[i], a, b));
                        }
                    }
                    cur = nx;
                } else {
                    factors.push_back(cur);
                    cur = operands[i + 1];
                }
            }
            factors.push_back(cur);
            RSet alt = factors[0];
            for (size_t i = 1; i < factors.size(); i++) {
                RSet nx;
                for (auto &a : alt) {
                    for (auto &b : factors[i]) {
                        add_unique(nx, apply(12 /* '*' */, a, b));
                    }
                }
                alt = nx;
            }
            bool rounds = false;
            for (auto &a : alt) {
                rounds = rounds || a.inexact || a.unspec;
            }
            if (rounds) {
                for (auto &a : acc) {
                    a.inexact = true;
                }
            }
        }
        return acc;
    }
    // the document does not order these: every bracketing is admissible
    std::vector<std::vector<RSet>> f(n + 1, std::vector<RSet>(n + 1));
    for (size_t i = 0; i <= n; i++) {
        f[i][i] = operands[i];
    }
    for (size_t len = 1; len <= n; len++) {
        for (size_t i = 0; i + len <= n; i++) {
            size_t j = i + len;
            RSet   r;
            for (size_t k = i; k < j; k++) {
                for (auto &a : f[i][k]) {
                    for (auto &b : f[k + 1][j]) {
                        add_unique(r, apply(ops[k], a, b));
                    }
                }
            }
            f[i][j] = r;
        }
    }
    return f[0][n];
}
static RSet eval_level(const std::vector<RSet> &operands, const std::vector<int> &ops, int level) {
    if (level > 6) {
        return operands[0];
    }
    // split at operators of this level; the pieces are evaluated at the next level
    std::vector<RSet> parts;
    std::vector<int>  pops;
    std::vector<RSet> cur_o{operands[0]};
    std::vector<int>  cur_p;
    for (size_t i = 0; i < ops.size(); i++) {
        if (LEVEL[ops[i]] == level) {
            parts.push_back(eval_level(cur_o, cur_p, level + 1));
            pops.push_back(ops[i]);
            cur_o = {operands[i + 1]};
            cur_p.clear();
        } else {
            cur_o.push_back(operands[i + 1]);
            cur_p.push_back(ops[i]);
        }
    }
    parts.push_back(eval_level(cur_o, cur_p, level + 1));
    return eval_run(parts, pops);
}


#endif
