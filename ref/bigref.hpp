// bigref.hpp - schoolbook reference big integer (base 2^32, little endian), deliberately boring.
#ifndef BIGREF_HPP
#define BIGREF_HPP
#include <vector>
#include <cstdint>
#include <string>

namespace ref {
struct Big {
    std::vector<uint32_t> d; // no trailing zero digits (canonical); zero = empty
    Big() {}
    explicit Big(unsigned __int128 v) {
        while (v) {
            d.push_back((uint32_t)v);
            v >>= 32;
        }
    }
    void trim() {
        while (!d.empty() && d.back() == 0) {
            d.pop_back();
        }
    }
    bool   is_zero() const { return d.empty(); }
    size_t bitlen() const {
        if (d.empty()) {
            return 0;
        }
        uint32_t t = d.back();
        size_t   n = 0;
        while (t) {
            n++;
            t >>= 1;
        }
        return (d.size() - 1) * 32 + n;
    }
    size_t lowbit() const { // index of lowest set bit (value must be non-zero)
        for (size_t i = 0; i < d.size(); i++) {
            if (d[i]) {
                size_t n = 0;
                uint32_t t = d[i];
                while (!(t & 1)) {
                    t >>= 1;
                    n++;
                }
                return i * 32 + n;
            }
        }
        return 0;
    }
    void add(unsigned __int128 w, size_t at_digit = 0) {
        size_t i = at_digit;
        while (w) {
            if (d.size() <= i) {
                d.resize(i + 1, 0);
            }
            unsigned __int128 s = (unsigned __int128)d[i] + (uint32_t)w;
            d[i]                = (uint32_t)s;
            w                   = (w >> 32) + (s >> 32);
            i++;
        }
        trim();
    }
    // returns false when the result would be negative (then *this is unchanged)
    bool sub(unsigned __int128 w) {
        Big o(w);
        if (cmp(o) < 0) {
            return false;
        }
        int64_t borrow = 0;
        for (size_t i = 0; i < d.size(); i++) {
            int64_t x = (int64_t)d[i] - (i < o.d.size() ? (int64_t)o.d[i] : 0) - borrow;
            borrow    = x < 0;
            if (x < 0) {
                x += (int64_t)1 << 32;
            }
            d[i] = (uint32_t)x;
        }
        trim();
        return true;
    }
    void mul(uint64_t w) {
        unsigned __int128 carry = 0;
        for (size_t i = 0; i < d.size(); i++) {
            unsigned __int128 p = (unsigned __int128)d[i] * w + carry;
            d[i]                = (uint32_t)p;
            carry               = p >> 32;
        }
        while (carry) {
            d.push_back((uint32_t)carry);
            carry >>= 32;
        }
        trim();
    }
    uint64_t divmod(uint64_t w) { // w != 0
        unsigned __int128 rem = 0;
        for (size_t i = d.size(); i-- > 0;) {
            unsigned __int128 cur = (rem << 32) | d[i];
            d[i]                  = (uint32_t)(cur / w);
            rem                   = cur % w;
        }
        trim();
        return (uint64_t)rem;
    }
    void shl(size_t s) {
        if (d.empty()) {
            return;
        }
        size_t                words = s / 32, bits = s % 32;
        std::vector<uint32_t> r(d.size() + words + 1, 0);
        for (size_t i = 0; i < d.size(); i++) {
            uint64_t v = (uint64_t)d[i] << bits;
            r[i + words] |= (uint32_t)v;
            r[i + words + 1] |= (uint32_t)(v >> 32);
        }
        d = r;
        trim();
    }
    void shr(size_t s) {
        size_t words = s / 32, bits = s % 32;
        if (words >= d.size()) {
            d.clear();
            return;
        }
        std::vector<uint32_t> r(d.size() - words, 0);
        for (size_t i = words; i < d.size(); i++) {
            uint64_t v = d[i];
            if (i + 1 < d.size()) {
                v |= (uint64_t)d[i + 1] << 32;
            }
            r[i - words] = (uint32_t)(v >> bits);
        }
        d = r;
        trim();
    }
    void or_low(unsigned __int128 w) {
        size_t i = 0;
        while (w) {
            if (d.size() <= i) {
                d.resize(i + 1, 0);
            }
            d[i] |= (uint32_t)w;
            w >>= 32;
            i++;
        }
        trim();
    }
    int cmp(const Big &o) const {
        if (d.size() != o.d.size()) {
            return d.size() < o.d.size() ? -1 : 1;
        }
        for (size_t i = d.size(); i-- > 0;) {
            if (d[i] != o.d[i]) {
                return d[i] < o.d[i] ? -1 : 1;
            }
        }
        return 0;
    }
    // word `i` of the value when cut into words of `wbits` bits (8,16,32,64)
    uint64_t word(size_t i, unsigned wbits) const {
        uint64_t v = 0;
        for (unsigned b = 0; b < wbits; b += 8) {
            size_t   bit   = i * wbits + b;
            size_t   digit = bit / 32;
            unsigned off   = bit % 32;
            uint64_t byte  = digit < d.size() ? ((d[digit] >> off) & 0xFF) : 0;
            v |= byte << b;
        }
        return v;
    }
    std::string hex() const {
        if (d.empty()) {
            return "0";
        }
        std::string s;
        char        b[16];
        for (size_t i = d.size(); i-- > 0;) {
            snprintf(b, sizeof b, i + 1 == d.size() ? "%x" : "%08x", d[i]);
            s += b;
        }
        return s;
    }
};
} // namespace ref
#endif
