// json_ref.hpp - strict RFC 8259 reference parser over code points (independent of Qentem), producing a plain
// tree; cross-checked against python3 json.loads by tools/json_xcheck.py on every C06 run.
#ifndef JSON_REF_HPP
#define JSON_REF_HPP
#include <string>
#include <vector>
#include <memory>
#include <cstdint>
#include <cstdlib>
#include <cstring>
#include <cstdio>

namespace ref {

struct JNode {
    enum Kind { Null, True, False, Int, Real, Str, Arr, Obj } kind = Null;
    std::u32string                                str;     // Str: code points
    std::string                                   numeral; // Int/Real: the source numeral (ASCII)
    bool                                          int_fits = false;
    bool                                          neg      = false;
    unsigned long long                            mag      = 0; // Int and fits: magnitude
    double                                        real     = 0; // strtod of the numeral (always set for numbers)
    std::vector<JNode>                            items;       // Arr
    std::vector<std::pair<std::u32string, JNode>> members;     // Obj, duplicates resolved: last value, first position
};

class JParser {
  public:
    explicit JParser(const std::u32string &t) : s(t) {}
    bool parse(JNode &out) {
        ws();
        if (!value(out, 0)) {
            return false;
        }
        ws();
        return pos == s.size();
    }

  private:
    const std::u32string &s;
    size_t                pos = 0;
    void                  ws() {
        while (pos < s.size() && (s[pos] == ' ' || s[pos] == '\t' || s[pos] == '\n' || s[pos] == '\r')) {
            pos++;
        }
    }
    bool lit(const char *w) {
        size_t n = strlen(w);
        if (s.size() - pos < n) {
            return false;
        }
        for (size_t i = 0; i < n; i++) {
            if (s[pos + i] != (char32_t)w[i]) {
                return false;
            }
        }
        pos += n;
        return true;
    }
    static int hexv(char32_t c) {
        if (c >= '0' && c <= '9') return int(c - '0');
        if (c >= 'a' && c <= 'f') return int(c - 'a' + 10);
        if (c >= 'A' && c <= 'F') return int(c - 'A' + 10);
        return -1;
    }
    bool hex4(uint32_t &v) {
        if (s.size() - pos < 4) {
            return false;
        }
        v = 0;
        for (int i = 0; i < 4; i++) {
            int h = hexv(s[pos + i]);
            if (h < 0) {
                return false;
            }
            v = v * 16 + (uint32_t)h;
        }
        pos += 4;
        return true;
    }
    bool string(std::u32string &out) {
        if (pos >= s.size() || s[pos] != '"') {
            return false;
        }
        pos++;
        out.clear();
        while (pos < s.size()) {
            char32_t c = s[pos];
            if (c == '"') {
                pos++;
                return true;
            }
            if (c < 0x20) {
                return false;
            }
            if (c != '\\') {
                out.push_back(c);
                pos++;
                continue;
            }
            pos++;
            if (pos >= s.size()) {
                return false;
            }
            char32_t e = s[pos++];
            switch (e) {
                case '"': out.push_back('"'); break;
                case '\\': out.push_back('\\'); break;
                case '/': out.push_back('/'); break;
                case 'b': out.push_back(8); break;
                case 'f': out.push_back(12); break;
                case 'n': out.push_back(10); break;
                case 'r': out.push_back(13); break;
                case 't': out.push_back(9); break;
                case 'u': {
                    uint32_t v;
                    if (!hex4(v)) {
                        return false;
                    }
                    if (v >= 0xD800 && v <= 0xDBFF && pos + 6 <= s.size() && s[pos] == '\\' && s[pos + 1] == 'u') {
                        size_t   save = pos;
                        uint32_t lo;
                        pos += 2;
                        if (hex4(lo) && lo >= 0xDC00 && lo <= 0xDFFF) {
                            v = 0x10000 + ((v - 0xD800) << 10) + (lo - 0xDC00);
                        } else {
                            pos = save; // lone surrogate: kept as is
                        }
                    }
                    out.push_back(v);
                    break;
                }
                default: return false;
            }
        }
        return false;
    }
    bool number(JNode &n) {
        size_t start = pos;
        bool   isint = true;
        if (pos < s.size() && s[pos] == '-') {
            pos++;
        }
        if (pos >= s.size()) {
            return false;
        }
        if (s[pos] == '0') {
            pos++;
        } else if (s[pos] >= '1' && s[pos] <= '9') {
            while (pos < s.size() && s[pos] >= '0' && s[pos] <= '9') {
                pos++;
            }
        } else {
            return false;
        }
        if (pos < s.size() && s[pos] == '.') {
            isint = false;
            pos++;
            size_t d = pos;
            while (pos < s.size() && s[pos] >= '0' && s[pos] <= '9') {
                pos++;
            }
            if (pos == d) {
                return false;
            }
        }
        if (pos < s.size() && (s[pos] == 'e' || s[pos] == 'E')) {
            isint = false;
            pos++;
            if (pos < s.size() && (s[pos] == '+' || s[pos] == '-')) {
                pos++;
            }
            size_t d = pos;
            while (pos < s.size() && s[pos] >= '0' && s[pos] <= '9') {
                pos++;
            }
            if (pos == d) {
                return false;
            }
        }
        n.numeral.clear();
        for (size_t i = start; i < pos; i++) {
            n.numeral.push_back(char(s[i]));
        }
        n.kind = isint ? JNode::Int : JNode::Real;
        n.real = strtod(n.numeral.c_str(), nullptr);
        n.neg  = n.numeral[0] == '-';
        if (isint) {
            const char *d = n.numeral.c_str() + (n.neg ? 1 : 0);
            unsigned __int128 v = 0;
            bool              big = false;
            for (; *d; d++) {
                v = v * 10 + (unsigned)(*d - '0');
                if (v > (((unsigned __int128)1) << 64)) {
                    big = true;
                    break;
                }
            }
            if (!big) {
                if (!n.neg && v <= 0xFFFFFFFFFFFFFFFFULL) {
                    n.int_fits = true;
                    n.mag      = (unsigned long long)v;
                } else if (n.neg && v <= (((unsigned __int128)1) << 63)) {
                    n.int_fits = true;
                    n.mag      = (unsigned long long)v;
                }
            }
        }
        return true;
    }
    bool value(JNode &n, int depth) {
        if (depth > 5000 || pos >= s.size()) {
            return false;
        }
        char32_t c = s[pos];
        if (c == '[') {
            pos++;
            n.kind = JNode::Arr;
            ws();
            if (pos < s.size() && s[pos] == ']') {
                pos++;
                return true;
            }
            for (;;) {
                JNode e;
                ws();
                if (!value(e, depth + 1)) {
                    return false;
                }
                n.items.push_back(std::move(e));
                ws();
                if (pos >= s.size()) {
                    return false;
                }
                if (s[pos] == ',') {
                    pos++;
                    continue;
                }
                if (s[pos] == ']') {
                    pos++;
                    return true;
                }
                return false;
            }
        }
        if (c == '{') {
            pos++;
            n.kind = JNode::Obj;
            ws();
            if (pos < s.size() && s[pos] == '}') {
                pos++;
                return true;
            }
            for (;;) {
                std::u32string k;
                JNode          e;
                ws();
                if (!string(k)) {
                    return false;
                }
                ws();
                if (pos >= s.size() || s[pos] != ':') {
                    return false;
                }
                pos++;
                ws();
                if (!value(e, depth + 1)) {
                    return false;
                }
                bool found = false;
                for (auto &m : n.members) {
                    if (m.first == k) {
                        m.second = std::move(e);
                        found    = true;
                        break;
                    }
                }
                if (!found) {
                    n.members.emplace_back(k, std::move(e));
                }
                ws();
                if (pos >= s.size()) {
                    return false;
                }
                if (s[pos] == ',') {
                    pos++;
                    continue;
                }
                if (s[pos] == '}') {
                    pos++;
                    return true;
                }
                return false;
            }
        }
        if (c == '"') {
            n.kind = JNode::Str;
            return string(n.str);
        }
        if (c == 't') {
            n.kind = JNode::True;
            return lit("true");
        }
        if (c == 'f') {
            n.kind = JNode::False;
            return lit("false");
        }
        if (c == 'n') {
            n.kind = JNode::Null;
            return lit("null");
        }
        return number(n);
    }
};

inline void canon_str(const std::u32string &s, std::string &o) {
    char b[16];
    o += '"';
    for (char32_t c : s) {
        snprintf(b, sizeof b, "%X;", (unsigned)c);
        o += b;
    }
    o += '"';
}
// canonical form shared with tools/json_xcheck.py
inline void canon(const JNode &n, std::string &o) {
    char b[40];
    switch (n.kind) {
        case JNode::Null: o += "null"; break;
        case JNode::True: o += "true"; break;
        case JNode::False: o += "false"; break;
        case JNode::Int: {
            // normalised decimal: no "-0"
            const char *d = n.numeral.c_str();
            if (strcmp(d, "-0") == 0) {
                d = "0";
            }
            o += "i";
            o += d;
            break;
        }
        case JNode::Real: {
            unsigned long long u;
            memcpy(&u, &n.real, 8);
            snprintf(b, sizeof b, "r%016llx", u);
            o += b;
            break;
        }
        case JNode::Str: canon_str(n.str, o); break;
        case JNode::Arr: {
            o += '[';
            for (size_t i = 0; i < n.items.size(); i++) {
                if (i) o += ',';
                canon(n.items[i], o);
            }
            o += ']';
            break;
        }
        case JNode::Obj: {
            o += '{';
            for (size_t i = 0; i < n.members.size(); i++) {
                if (i) o += ',';
                canon_str(n.members[i].first, o);
                o += ':';
                canon(n.members[i].second, o);
            }
            o += '}';
            break;
        }
    }
}
} // namespace ref
#endif
