#!/usr/bin/env python3
"""seed_again.py <name> "<note: what was strengthened>" [<PID> <tier>]... - re-run checks against a kept seeded change that was missed at first.
Applies seeded/<name>/patch.diff to /repo, runs the checks (default: the property's quick tier), undoes it, records the result in meta.json."""
import json, os, subprocess, sys, time
os.environ['VERIF_EVIDENCE'] = 'build/seed_evidence'
ROOT = os.path.dirname(os.path.dirname(os.path.abspath(__file__)))
name, note = sys.argv[1], sys.argv[2]
rest = sys.argv[3:]
d = ROOT + '/seeded/' + name
m = json.load(open(d + '/meta.json'))
checks = [(rest[i], rest[i + 1]) for i in range(0, len(rest), 2)] or [(m['property'], 'quick')]
def sh(c, cwd=None):
    p = subprocess.run(c, shell=True, cwd=cwd, stdout=subprocess.PIPE, stderr=subprocess.STDOUT, text=True, errors='replace')
    return p.returncode, p.stdout
rc, out = sh('git -C /repo status --porcelain --untracked-files=no')
assert not out.strip(), '/repo dirty'
rc, out = sh('git -C /repo apply %s/patch.diff' % d)
assert rc == 0, out
try:
    for pid, tier in checks:
        t0 = time.time()
        rc, out = sh('./check %s %s' % (pid, tier), cwd=ROOT)
        lines = out.splitlines()
        v = [l for l in lines if l.startswith('VIOLATION')]
        first = ''
        for i, l in enumerate(lines):
            if l.startswith('VIOLATION'):
                first = ' / '.join(x.strip() for x in lines[i + 1:i + 3]); break
        m.setdefault('detected_by', {})['%s %s' % (pid, tier)] = {'exit': rc, 'violations': len(v), 'first': first[:500], 'wall_s': round(time.time() - t0, 1)}
        m.setdefault('ran', []).append('after strengthening: ./check %s %s with the patch applied to /repo -> exit %d, %d VIOLATION lines' % (pid, tier, rc, len(v)))
        print(pid, tier, 'exit', rc, len(v), first[:300])
        if rc == 2: print(out[-1500:])
finally:
    sh('git -C /repo checkout -- .')
m['caught'] = any(x['exit'] == 1 for x in m['detected_by'].values())
if note: m['strengthened'] = note
json.dump(m, open(d + '/meta.json', 'w'), indent=1)
