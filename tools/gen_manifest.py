#!/usr/bin/env python3
"""Regenerates MANIFEST.json from checks.py + manifest_text.py (kept in sync with what ./check can run)."""
import json, os, sys
ROOT = os.path.dirname(os.path.dirname(os.path.abspath(__file__)))
sys.path.insert(0, ROOT)
from checks import CHECKS
from manifest_text import TEXT, HOOK_COMMITS, NOT_APPLICABLE, ENGINES

props = [json.loads(l)['id'] for l in open(os.path.join(ROOT, 'properties.jsonl'))]
checks = []
for pid in props:
    if pid not in CHECKS or pid not in TEXT:
        continue
    t = TEXT[pid]
    c = {
        'property_id': pid,
        'quick_cmd': './check %s quick' % pid,
        'thorough_cmd': './check %s thorough' % pid,
        'evidence_file': 'evidence/%s.json' % pid,
        'replay_cmd_template': './check %s --replay {path}' % pid,
        'engine': CHECKS[pid]['engine'],
        'level_claimed': {'category': 'model_checking', 'text': t['level'], 'design_ref': t['design_ref']},
        'level_note': t['note'],
        'technique': t['technique'],
    }
    checks.append(c)
na = []
for pid in props:
    if pid not in CHECKS or pid not in TEXT:
        na.append({'property_id': pid, 'reason': NOT_APPLICABLE.get(pid, 'no check registered yet: harness not built in this revision of /verif')})
m = {
    'version': 1,
    'setup_cmd': './check setup',
    'hooks': {
        'guard': 'QENTEM_VERIF',
        'enable': 'harness binaries whose variant contains +hook are compiled with -DQENTEM_VERIF=1 (see flags_for in ./check)',
        'baseline_off_cmd': 'cmake -G Ninja -B /repo/_build -S /repo && cmake --build /repo/_build && ctest --test-dir /repo/_build -j8 --timeout 900',
        'source_commits': HOOK_COMMITS,
        'add_only': True,
    },
    'engines': ENGINES,
    'checks': checks,
    'notes': 'All checks explore the implementation itself (bounded-exhaustive enumeration; no sampling). '
             'Known findings: known_findings.txt. Seeded mutations: seeded/. See DESIGN.md.',
    'not_applicable': na,
}
json.dump(m, open(os.path.join(ROOT, 'MANIFEST.json'), 'w'), indent=1)
print('MANIFEST.json: %d checks, %d not_applicable' % (len(checks), len(na)))
