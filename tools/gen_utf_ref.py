#!/usr/bin/env python3
"""Writes python's own UTF-8 and UTF-16 encodings of every Unicode scalar value (an oracle for the oracle):
record = cp:u32, n8:u8, 4 bytes utf8, n16:u8, 2 x u16 utf16le  -> 4+1+4+1+4 = 14 bytes."""
import sys, struct
out = bytearray()
for cp in range(0x110000):
    if 0xD800 <= cp <= 0xDFFF:
        continue
    s = chr(cp)
    b8 = s.encode('utf-8')
    b16 = s.encode('utf-16-le')
    u16 = struct.unpack('<%dH' % (len(b16) // 2), b16)
    out += struct.pack('<IB4sB2H', cp, len(b8), b8.ljust(4, b'\0'), len(u16), *(list(u16) + [0])[:2])
open(sys.argv[1], 'wb').write(out)
