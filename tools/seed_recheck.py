#!/usr/bin/env python3
"""seed_recheck.py [names...] - re-runs the registered quick checks against every kept seeded change on the CURRENT /repo HEAD.

Uses a scratch worktree and a scratch copy of /verif (SEED_PAR=<worktree>:<copy>, as tools/seed_eval.py), so /repo and
/verif/build stay untouched. For each seeded/<name>/ whose patch still applies to HEAD: apply, run the check(s) that caught it
originally (meta.detected_by with exit 1; else the property's own check), record the result under meta['final_tree'].
"""
import json
import os
import subprocess
import sys
import time
os.environ['VERIF_EVIDENCE'] = 'build/seed_evidence'

ROOT = os.path.dirname(os.path.dirname(os.path.abspath(__file__)))


def sh(cmd, cwd=None, timeout=3600):
    p = subprocess.run(cmd, shell=True, cwd=cwd, stdout=subprocess.PIPE, stderr=subprocess.STDOUT, text=True, timeout=timeout, errors='replace')
    return p.returncode, p.stdout


def main():
    wt, copy = os.environ['SEED_PAR'].split(':')
    head = sh('git -C /repo rev-parse --short HEAD')[1].strip()
    names = sys.argv[1:] or sorted(os.listdir(ROOT + '/seeded'))
    for name in names:
        d = ROOT + '/seeded/' + name
        mp = d + '/meta.json'
        if not os.path.exists(mp):
            continue
        m = json.load(open(mp))
        sh('git checkout -q -- .', cwd=wt)
        rc, out = sh('git apply --check %s/patch.diff && git apply %s/patch.diff' % (d, d), cwd=wt)
        if rc:
            m['final_tree'] = {'commit': head, 'applies': False, 'note': 'a later repair rewrote the lines this patch touches'}
            json.dump(m, open(mp, 'w'), indent=1)
            print(name, 'does not apply')
            continue
        checks = [k for k, v in m.get('detected_by', {}).items() if v.get('exit') == 1] or [m['property'] + ' quick']
        res = {}
        for c in checks:
            prop, tier = c.split()
            t0 = time.time()
            rc, out = sh('VERIF_REPO=%s ./check %s %s' % (wt, prop, tier), cwd=copy, timeout=3 * 3600)
            res[c] = {'exit': rc, 'violations': len([l for l in out.splitlines() if l.startswith('VIOLATION')]), 'wall_s': round(time.time() - t0, 1)}
            if rc == 1:
                break
        sh('git checkout -q -- .', cwd=wt)
        m['final_tree'] = {'commit': head, 'applies': True, 'results': res, 'caught': any(r['exit'] == 1 for r in res.values())}
        json.dump(m, open(mp, 'w'), indent=1)
        print(name, m['final_tree']['caught'], res)
        sys.stdout.flush()


if __name__ == '__main__':
    main()
