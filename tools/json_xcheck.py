#!/usr/bin/env python3
"""Oracle for the oracle: re-parses documents emitted by the C06 harness with python's json module and compares
the canonical form with the one produced by ref/json_ref.hpp.  Input lines: <hex of utf-32-le text>\t<canon>."""
import sys, json, struct

def canon(v):
    if v is None:
        return 'null'
    if v is True:
        return 'true'
    if v is False:
        return 'false'
    if isinstance(v, int):
        return 'i%d' % v
    if isinstance(v, float):
        return 'r%016x' % struct.unpack('>Q', struct.pack('>d', v))[0]
    if isinstance(v, str):
        # python keeps lone surrogates as code points and joins pairs, like the reference
        return '"' + ''.join('%X;' % ord(c) for c in v) + '"'
    if isinstance(v, list):
        return '[' + ','.join(canon(x) for x in v) + ']'
    if isinstance(v, dict):
        return '{' + ','.join(canon(k) + ':' + canon(x) for k, x in v.items()) + '}'
    raise ValueError(type(v))

n = bad = 0
for line in open(sys.argv[1]):
    hx, want = line.rstrip('\n').split('\t')
    text = bytes.fromhex(hx).decode('utf-32-le', errors='surrogatepass')
    try:
        got = canon(json.loads(text))
    except Exception as e:  # noqa
        got = 'REJECT'
    n += 1
    if got != want:
        bad += 1
        if bad < 5:
            print('MISMATCH %r: python %s reference %s' % (text, got, want))
print('xcheck %d documents, %d mismatches' % (n, bad))
sys.exit(1 if bad or n == 0 else 0)
