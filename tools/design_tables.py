#!/usr/bin/env python3
"""Prints the markdown tables of DESIGN.md sections 10 and 11 from evidence/ and seeded/ (paste, do not hand-edit)."""
import glob
import json
import os
import sys

ROOT = os.path.dirname(os.path.dirname(os.path.abspath(__file__)))


def evidence_table():
    out = ['| id | tier | states | transitions | distinct | exhaustive | wall s | parts (bounds) |', '|---|---|---|---|---|---|---|---|']
    for f in sorted(glob.glob(ROOT + '/evidence/C*.json')):
        e = json.load(open(f))
        c = e['coverage']
        parts = []
        for k, v in c['bounds'].items():
            name = k.split('@')[0]
            b = str(v).split(' [')[0]
            parts.append('`%s`: %s' % (name, b))
        out.append('| %s | %s | %d | %d | %d | %s | %.0f | %s |' % (e['property_id'], e['tier'], c['states'], c['transitions'], c['distinct_nontrivial'],
                                                              'yes' if c['exhaustive'] else 'no', e['wall_s'], '; '.join(parts)))
    return '\n'.join(out)


def seeds_table():
    out = ['| seed | change (all keep the 15 tests green) | needs | caught by | re-run on the final tree |', '|---|---|---|---|---|']
    for f in sorted(glob.glob(ROOT + '/seeded/*/meta.json')):
        m = json.load(open(f))
        det = m.get('detected_by', {})
        by = ', '.join('%s (%d)' % (k, v.get('violations', 0)) for k, v in det.items() if v.get('exit') == 1)
        if not by:
            by = '**not caught** - ' + m.get('why_not', 'see meta.json')
        if m.get('strengthened'):
            by += '; strengthened: ' + m['strengthened']

        def cut(s, n):
            s = ' '.join(str(s).split()).replace('|', '\\|')
            return s if len(s) <= n else s[:n - 1] + '…'

        ft = m.get('final_tree')
        if not ft:
            fin = 'not re-run'
        elif not ft.get('applies', True):
            fin = 'patch no longer applies (a later repair rewrote its lines)'
        elif ft.get('caught'):
            fin = 'caught'
        elif ft.get('note'):
            fin = 'not a defect any more: ' + cut(ft['note'], 200)
        else:
            fin = 'not caught'
        out.append('| %s | %s | %s | %s | %s |' % (m['name'], cut(m.get('summary', ''), 230), cut(m.get('needs', ''), 160), by, fin))
    return '\n'.join(out)


if __name__ == '__main__':
    which = sys.argv[1] if len(sys.argv) > 1 else 'all'
    if which in ('evidence', 'all'):
        print(evidence_table())
    if which in ('seeds', 'all'):
        print()
        print(seeds_table())
