#!/usr/bin/env python3
"""Summarise the violations of part files: vsum.py <part.json>..."""
import json, sys, re, collections
for f in sys.argv[1:]:
    p = json.load(open(f))
    print(f, 'states', p['states'], 'evals', p['evaluations'], 'viol', len(p['violations']), 'dropped', p['dropped_violations'], 'herr', p['harness_error'])
    cls = collections.OrderedDict()
    for v in p['violations']:
        d = re.sub(r'[-+]?[0-9][0-9a-fx.e+-]*', '#', v['detail'])[:60]
        cls.setdefault(d, []).append(v['key'])
    for d, ks in cls.items():
        print('  %5d  %s   e.g. %s' % (len(ks), d, ' | '.join(k[:50] for k in ks[:4])))
