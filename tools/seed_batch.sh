#!/bin/bash
# seed_batch.sh <PID> <dir-with-a-b-subdirs> [extra seed_eval args]: evaluate the changes in <dir>/a, <dir>/b ... as <PID>-<next free n>
# (SEED_PAR=<scratch worktree>:<scratch copy of /verif> in the environment keeps /repo and /verif/build untouched)
pid=$1; dir=$2; shift 2
for sub in "$dir"/*/; do
  [ -f "$sub/patch.diff" ] || continue
  n=1; while [ -d /verif/seeded/$pid-$n ]; do n=$((n+1)); done
  echo "=== $sub -> $pid-$n"
  python3 /verif/tools/seed_eval.py $pid $pid-$n $sub/patch.diff $sub/demo.cpp $sub/meta.json --tiers quick "$@" 2>&1 | tail -25
done
