#!/usr/bin/env python3
"""seed_eval.py <property> <name> <patch.diff> <demo.cpp> <meta.json> [--tiers quick,thorough] [--also C16,...]

Confirms a seeded defect independently and runs the registered checks against it:
 1. scratch worktree of /repo HEAD under /tmp/seedeval: apply patch, build + run the 15 ctest binaries (must pass),
    compile the demonstration and run it with the patch (must fail) and without it (must pass);
 2. apply the patch to /repo's working tree, run ./check <property> quick (then thorough when quick misses), undo;
 3. keep it as /verif/seeded/<name>/ (patch.diff, demo.cpp, meta.json with what was run and what caught it).
"""
import sys, os, subprocess, json, shutil, time
os.environ['VERIF_EVIDENCE'] = 'build/seed_evidence'

ROOT = os.path.dirname(os.path.dirname(os.path.abspath(__file__)))
REPO = '/repo'
WT = '/tmp/seedeval'


def sh(cmd, cwd=None, timeout=3600):
    p = subprocess.run(cmd, shell=True, cwd=cwd, stdout=subprocess.PIPE, stderr=subprocess.STDOUT, text=True, timeout=timeout,
                       errors='replace')
    return p.returncode, p.stdout


def main():
    pid, name, patch, demo, meta = sys.argv[1:6]
    tiers = ['quick', 'thorough']
    also = []
    args = sys.argv[6:]
    while args:
        a = args.pop(0)
        if a == '--tiers':
            tiers = args.pop(0).split(',')
        elif a == '--also':
            also = args.pop(0).split(',')
    patch = os.path.abspath(patch)
    demo = os.path.abspath(demo)
    res = {'property': pid, 'name': name}
    try:
        m = json.load(open(meta))
    except Exception:
        m = {}
    res['summary'] = m.get('summary', '')
    res['needs'] = m.get('needs', '')
    res['agent_ran'] = m.get('ran', '')
    # 1. independent confirmation
    sh('git -C %s worktree remove --force %s' % (REPO, WT))
    shutil.rmtree(WT, ignore_errors=True)
    rc, out = sh('git -C %s worktree add -q --detach %s HEAD' % (REPO, WT))
    if rc:
        print(out)
        return 2
    ran = []
    try:
        rc, out = sh('git apply --check %s && git apply %s' % (patch, patch), cwd=WT)
        if rc:
            print('patch does not apply to /repo HEAD:\n' + out)
            res['confirmed'] = False
            res['why_not'] = 'patch does not apply to /repo HEAD'
            return finish(res, name, patch, demo, ran, keep=False)
        rc, out = sh('cmake -G Ninja -B _build -S . >/dev/null && cmake --build _build 2>&1 | tail -3 && ctest --test-dir _build -j8 2>&1 | tail -4', cwd=WT)
        suite_ok = '100% tests passed' in out
        ran.append('with patch: cmake -G Ninja -B _build -S . && cmake --build _build && ctest --test-dir _build -j8 -> %s' %
                   ('15/15 passed' if suite_ok else 'FAILED: ' + out[-400:]))
        is_asan = 'asan' in open(demo).read().lower() or 'sanitize' in json.dumps(m).lower()
        cc = 'clang++ -std=gnu++17 -g -O1 -fsanitize=address,undefined -fno-sanitize-recover=all -I Include' if is_asan else 'g++ -std=gnu++17 -O1 -I Include'
        if 'thread' in open(demo).read() and 'pthread' not in cc:
            cc += ' -pthread'
        if m.get('compile'):
            # the demonstration needs particular flags (e.g. a SIMD configuration): keep the compiler and -D/-m/-f flags
            toks = [t for t in m['compile'].split('(')[0].split() if t.startswith(('-D', '-m', '-f', '-O', '-pthread'))]
            comp = 'clang++' if 'clang++' in m['compile'] else 'g++'
            cc = comp + ' -std=gnu++17 -I Include ' + ' '.join(toks)
        rc, out = sh('%s %s -o /tmp/seedeval_demo_with && /tmp/seedeval_demo_with' % (cc, demo), cwd=WT, timeout=900)
        with_fail = rc != 0
        ran.append('with patch: %s demo.cpp && ./a.out -> exit %d' % (cc, rc))
        sh('git checkout -- .', cwd=WT)
        rc2, out2 = sh('%s %s -o /tmp/seedeval_demo_without && /tmp/seedeval_demo_without' % (cc, demo), cwd=WT, timeout=900)
        without_ok = rc2 == 0
        ran.append('without patch: same -> exit %d' % rc2)
        res['confirmed'] = bool(suite_ok and with_fail and without_ok)
        if not res['confirmed']:
            res['why_not'] = 'suite_ok=%s demo_fails_with=%s demo_passes_without=%s' % (suite_ok, with_fail, without_ok)
            print('NOT CONFIRMED', res['why_not'])
            print(out[-1500:])
            print(out2[-800:])
    finally:
        sh('git -C %s worktree remove --force %s' % (REPO, WT))
        shutil.rmtree(WT, ignore_errors=True)
        for f in ('/tmp/seedeval_demo_with', '/tmp/seedeval_demo_without'):
            if os.path.exists(f):
                os.unlink(f)
    if not res.get('confirmed'):
        return finish(res, name, patch, demo, ran, keep=False)
    # 2. run the checks against it
    # SEED_PAR=<scratch worktree>:<scratch copy of /verif> runs the checks there (VERIF_REPO), so /repo stays untouched
    crepo, croot, cenv = REPO, ROOT, ''
    if os.environ.get('SEED_PAR'):
        crepo, croot = os.environ['SEED_PAR'].split(':')
        cenv = 'VERIF_REPO=%s ' % crepo
    rc, out = sh('git -C %s status --porcelain --untracked-files=no' % crepo)
    if out.strip():
        print('%s has uncommitted changes; refusing' % crepo)
        return 2
    detected = {}
    try:
        rc, out = sh('git -C %s apply %s' % (crepo, patch))
        if rc:
            print(out)
            return 2
        for p in [pid] + also:
            for tier in tiers:
                t0 = time.time()
                rc, out = sh(cenv + './check %s %s' % (p, tier), cwd=croot, timeout=4 * 3600)
                v = [l for l in out.splitlines() if l.startswith('VIOLATION')]
                first = ''
                for i, l in enumerate(out.splitlines()):
                    if l.startswith('VIOLATION'):
                        first = ' / '.join(x.strip() for x in out.splitlines()[i + 1:i + 3])
                        break
                detected['%s %s' % (p, tier)] = {'exit': rc, 'violations': len(v), 'first': first[:500], 'wall_s': round(time.time() - t0, 1)}
                ran.append('./check %s %s with the patch applied to /repo -> exit %d, %d VIOLATION lines (%.0fs)' % (p, tier, rc, len(v), time.time() - t0))
                print('  %s %s: exit %d, %d violations  %s' % (p, tier, rc, len(v), first[:200]))
                if rc == 2:
                    print(out[-1500:])
                if rc == 1:
                    break
    finally:
        sh('git -C %s checkout -- .' % crepo)
    res['detected_by'] = detected
    res['caught'] = any(d['exit'] == 1 for d in detected.values())
    return finish(res, name, patch, demo, ran, keep=True)


def finish(res, name, patch, demo, ran, keep):
    res['ran'] = ran
    if keep:
        d = os.path.join(ROOT, 'seeded', name)
        os.makedirs(d, exist_ok=True)
        shutil.copy(patch, os.path.join(d, 'patch.diff'))
        shutil.copy(demo, os.path.join(d, 'demo.cpp'))
        json.dump(res, open(os.path.join(d, 'meta.json'), 'w'), indent=1)
    print(json.dumps({k: res[k] for k in res if k not in ('ran', 'agent_ran')}, indent=1)[:1500])
    return 0


if __name__ == '__main__':
    sys.exit(main())
