#!/usr/bin/env python3
"""Refreshes the generated tables of DESIGN.md (between <!-- gen:NAME --> and <!-- /gen:NAME -->) from evidence/ and seeded/."""
import os
import re
import sys

sys.path.insert(0, os.path.dirname(os.path.abspath(__file__)))
import design_tables as dt

ROOT = os.path.dirname(os.path.dirname(os.path.abspath(__file__)))
p = ROOT + '/DESIGN.md'
s = open(p).read()
for name, fn in (('evidence', dt.evidence_table), ('seeds', dt.seeds_table)):
    pat = re.compile(r'(<!-- gen:%s -->\n).*?(<!-- /gen:%s -->)' % (name, name), re.S)
    assert pat.search(s), name
    s = pat.sub(lambda m: m.group(1) + fn() + '\n' + m.group(2), s)
open(p, 'w').write(s)
print('DESIGN.md tables refreshed')
