#!/usr/bin/env python3-vt
import json, jsonschema, glob, sys, os
ROOT = os.path.dirname(os.path.dirname(os.path.abspath(__file__)))
jsonschema.validate(json.load(open(ROOT + '/MANIFEST.json')), json.load(open('/root/.vp/MANIFEST.schema.json')))
es = json.load(open('/root/.vp/EVIDENCE.schema.json'))
for f in sorted(glob.glob(ROOT + '/evidence/*.json')):
    jsonschema.validate(json.load(open(f)), es)
    print('ok', f)
print('manifest ok')
