# checks.py - registry of harness parts per property (read by ./check).
# part: src, variant (see flags_for in ./check), name, args, tier_args{tier:[...]}, tiers (default both), budget{tier:s}

def P(src, variant, name, args=None, tiers=('quick', 'thorough'), tier_args=None, budget=None, libs=None):
    d = {'src': src, 'variant': variant, 'name': name, 'args': list(args or []), 'tiers': tuple(tiers)}
    if tier_args:
        d['tier_args'] = tier_args
    if budget:
        d['budget'] = budget
    if libs:
        d['libs'] = libs
    return d


CHECKS = {
    'C20': {
        'engine': 'numx',
        'pre': [['python3', 'tools/gen_utf_ref.py', 'build/utf_ref.bin']],
        'rule': 'exhaustive over all Unicode scalar values',
        'parts': [
            P('props/C20.cpp', 'fast', 'scalars-fast'),
            P('props/C20.cpp', 'asan', 'scalars-asan', tiers=('thorough',)),
        ],
        'floor': {'quick': 1112064, 'thorough': 1112064},
    },
}
