# checks.py - registry of harness parts per property (read by ./check).
# part: src, variant (see flags_for in ./check), name, args, tier_args{tier:[...]}, tiers (default both), budget{tier:s}

def P(src, variant, name, args=None, tiers=('quick', 'thorough'), tier_args=None, budget=None, libs=None, objs=None):
    d = {'src': src, 'variant': variant, 'name': name, 'args': list(args or []), 'tiers': tuple(tiers)}
    if tier_args:
        d['tier_args'] = tier_args
    if budget:
        d['budget'] = budget
    if libs:
        d['libs'] = libs
    if objs:
        d['objs'] = objs
    return d


CHECKS = {
    'C02': {
        'engine': 'langx',
        'rule': 'documented-grammar templates vs reference interpreter',
        'parts': [
            P('props/C02.cpp', 'asan', 'docs-asan', tier_args={'quick': ['--nodes', '2'], 'thorough': ['--nodes', '3']}),
            P('props/C02.cpp', 'fast', 'docs-fast-sse2', tier_args={'quick': ['--nodes', '3'], 'thorough': ['--nodes', '4']}),
            P('props/C02.cpp', 'fast+avx2', 'docs-fast-avx2', tier_args={'quick': ['--nodes', '2'], 'thorough': ['--nodes', '3']}),
            P('props/C02.cpp', 'fast+nosimd', 'docs-fast-scalar', tier_args={'quick': ['--nodes', '2'], 'thorough': ['--nodes', '3']}),
            P('props/C02.cpp', 'fast+noesc', 'docs-fast-noescape', tier_args={'quick': ['--nodes', '2'], 'thorough': ['--nodes', '3']}),
        ],
        'floor': {'quick': 100, 'thorough': 100},
    },
    'C16': {
        'engine': 'seqx',
        'rule': 'allocation ledger over operation histories, input spaces and tag-cache lifetimes',
        'parts': [
            P('props/C16.cpp', 'asan+access', 'ledger-asan', tier_args={'quick': ['--depth', '3', '--jsonunits', '3', '--tokens', '2'], 'thorough': ['--depth', '4', '--jsonunits', '4', '--tokens', '2']}),
            P('props/C16.cpp', 'fast+access', 'ledger-fast', tier_args={'quick': ['--depth', '4', '--jsonunits', '4', '--tokens', '2'], 'thorough': ['--depth', '5', '--jsonunits', '5', '--tokens', '3']}),
        ],
        'floor': {'quick': 1000, 'thorough': 1000},
    },
    'C17': {
        'engine': 'sched',
        'rule': 'preemption-bounded schedule exploration with race monitor',
        'parts': [
            P('props/C17.cpp', 'clangg', 'schedules', objs=[{'src': 'props/C17_body.cpp', 'variant': 'cov'}, {'src': 'engine/sched/sched_rt.cpp', 'variant': 'clangg'}],
              libs=['-Wl,--wrap=__cxa_guard_acquire', '-Wl,--wrap=__cxa_guard_release'],
              tier_args={'quick': ['--preemptions', '1', '--preemptions3', '1', '--seqdepth', '3'], 'thorough': ['--preemptions', '2', '--preemptions3', '1', '--seqdepth', '4']}),
            P('props/C17_tsan.cpp', 'tsan', 'free-running-tsan', objs=[{'src': 'props/C17_body.cpp', 'variant': 'tsan'}],
              tier_args={'quick': ['--reps', '20'], 'thorough': ['--reps', '200']}),
        ],
        'floor': {'quick': 20, 'thorough': 20},
    },
    'C03': {
        'engine': 'langx',
        'rule': 'bounded-exhaustive strings through the escaper and every printing tag position',
        'parts': [
            P('props/C03.cpp', 'asan', 'escape-asan', tier_args={'quick': ['--units', '4', '--posunits', '2'], 'thorough': ['--units', '6', '--posunits', '3']}),
            P('props/C03.cpp', 'fast', 'escape-fast', tier_args={'quick': ['--units', '5', '--posunits', '3'], 'thorough': ['--units', '7', '--posunits', '4']}),
            P('props/C03.cpp', 'fast+noesc', 'escape-off', tier_args={'quick': ['--units', '4', '--posunits', '2'], 'thorough': ['--units', '5', '--posunits', '3']}),
        ],
        'floor': {'quick': 20, 'thorough': 20},
    },
    'C04': {
        'engine': 'langx',
        'rule': 'flat operator sequences vs exact-arithmetic reference (set-valued where the document is silent)',
        'parts': [
            P('props/C04.cpp', 'asan', 'expr-asan', tier_args={'quick': ['--ops', '2', '--seqlen', '3'], 'thorough': ['--ops', '3', '--seqlen', '4']}),
            P('props/C04.cpp', 'fast', 'expr-fast', tier_args={'quick': ['--ops', '3', '--seqlen', '4'], 'thorough': ['--ops', '4', '--seqlen', '5']}),
        ],
        'floor': {'quick': 20, 'thorough': 20},
    },
    'C01': {
        'engine': 'langx',
        'rule': 'bounded-exhaustive template texts in exact-size buffers',
        'parts': [
            P('props/C01.cpp', 'asan+hook', 'tokens-asan-hook', tier_args={'quick': ['--tokens', '2', '--values', '8', '--nodes', '2', '--dev', '1', '--micro', '0'], 'thorough': ['--tokens', '3', '--values', '8', '--nodes', '3', '--dev', '1', '--wide', '0', '--micro', '1']}),
            P('props/C01.cpp', 'fast', 'tokens-fast', tier_args={'quick': ['--tokens', '3', '--values', '4', '--nodes', '2', '--dev', '2', '--nodes0', '3'], 'thorough': ['--tokens', '4', '--values', '2', '--wide', '0', '--nodes', '3', '--dev', '1', '--nodes0', '4', '--micro', '1']}),
        ],
        'floor': {'quick': 100, 'thorough': 100},
    },
    'C08': {
        'engine': 'seqx',
        'rule': 'stringify/parse round trip over reachable Value states and a product set',
        'parts': [
            P('props/C08.cpp', 'asan', 'roundtrip-asan', tier_args={'quick': ['--depth', '2'], 'thorough': ['--depth', '3', '--cap', '300000']}),
            P('props/C08.cpp', 'fast', 'roundtrip-fast', tier_args={'quick': ['--depth', '3'], 'thorough': ['--depth', '4']}),
        ],
        'floor': {'quick': 1000, 'thorough': 1000},
    },
    'C18': {
        'engine': 'langx',
        'rule': 'all small arrays of objects vs reference partition',
        'parts': [
            P('props/C18.cpp', 'asan', 'group-asan', tier_args={'quick': ['--n', '2'], 'thorough': ['--n', '3']}),
            P('props/C18.cpp', 'fast', 'group-fast', tier_args={'quick': ['--n', '3'], 'thorough': ['--n', '4']}),
        ],
        'floor': {'quick': 50, 'thorough': 50},
    },
    'C12': {
        'engine': 'seqx',
        'rule': 'Value operation histories vs abstract document model',
        'parts': [
            P('props/C12.cpp', 'asan', 'value-asan', tier_args={'quick': ['--depth', '2'], 'thorough': ['--depth', '3', '--cap', '400000']}),
            P('props/C12.cpp', 'fast', 'value-fast', tier_args={'quick': ['--depth', '3'], 'thorough': ['--depth', '4']}),
        ],
        'floor': {'quick': 1000, 'thorough': 1000},
    },
    'C15': {
        'engine': 'langx',
        'rule': 'exhaustive pairs/triples of small strings and values; all small arrays through every sort',
        'parts': [
            P('props/C15.cpp', 'asan', 'order-asan'),
            P('props/C15.cpp', 'fast', 'order-fast'),
        ],
        'floor': {'quick': 1000, 'thorough': 1000},
    },
    'C13': {
        'engine': 'seqx',
        'rule': 'hash array operation histories vs ordered-map model + structural invariants',
        'parts': [
            P('props/C13.cpp', 'asan+access', 'hash-asan', tier_args={'quick': ['--depth', '3'], 'thorough': ['--depth', '4']}),
            P('props/C13.cpp', 'fast+access', 'hash-fast', tier_args={'quick': ['--depth', '4'], 'thorough': ['--depth', '5']}),
        ],
        'floor': {'quick': 1000, 'thorough': 1000},
    },
    'C14': {
        'engine': 'seqx',
        'rule': 'container operation histories vs std models; byte-copy primitives vs memcpy',
        'parts': [
            P('props/C14.cpp', 'asan+hook', 'seq-asan-hook', tier_args={'quick': ['--depth', '4', '--copylen', '130'], 'thorough': ['--depth', '5', '--copylen', '600']}),
            P('props/C14.cpp', 'asan', 'seq-asan', tier_args={'quick': ['--depth', '4', '--copylen', '130'], 'thorough': ['--depth', '5', '--copylen', '600']}),
            P('props/C14.cpp', 'fast', 'seq-fast-sse2', tier_args={'quick': ['--depth', '5'], 'thorough': ['--depth', '6']}, budget={'thorough': 1500}),  # depth 6 does not finish: levels up to 5 are complete, the 6th is reported as capped
            P('props/C14.cpp', 'fast+avx2', 'copy-avx2', args=['--only', 'copy']),
            P('props/C14.cpp', 'fast+nosimd', 'copy-scalar', args=['--only', 'copy']),
            P('props/C14.cpp', 'asan+avx2', 'copy-asan-avx2', args=['--only', 'copy'], tier_args={'quick': ['--copylen', '130'], 'thorough': ['--copylen', '600']}),
        ],
        'floor': {'quick': 1000, 'thorough': 1000},
    },
    'C19': {
        'engine': 'seqx',
        'rule': 'BigInt state exploration vs schoolbook reference',
        'parts': [
            P('props/C19.cpp', 'fast', 'bigint-fast'),
            P('props/C19.cpp', 'asan', 'bigint-asan', tier_args={'quick': ['--depth', '3', '--dspan', '512', '--u8depth', '1'], 'thorough': ['--depth', '4', '--dspan', '4096', '--u8depth', '2']}),
        ],
        'floor': {'quick': 1000, 'thorough': 1000},
    },
    'C11': {
        'engine': 'numx',
        'rule': 'format(17)/parse round trip on double and float lattices',
        'parts': [
            P('props/C11.cpp', 'fast', 'roundtrip-fast'),
            P('props/C11.cpp', 'asan', 'roundtrip-asan', tier_args={'quick': ['--floatbits', '16', '--hibits', '16'],
                                                                   'thorough': ['--floatbits', '22', '--hibits', '22']}),
        ],
        'floor': {'quick': 1000, 'thorough': 1000},
    },
    'C10': {
        'engine': 'numx',
        'rule': 'number formatting lattices vs printf',
        'parts': [
            P('props/C10.cpp', 'fast', 'lattice-fast'),
            P('props/C10.cpp', 'asan', 'lattice-asan', tier_args={'quick': ['--patterns', '2', '--kmax', '20000', '--floatbits', '14', '--i32bits', '14'],
                                                                 'thorough': ['--patterns', '8', '--kmax', '200000', '--floatbits', '20', '--i32bits', '20']}),
        ],
        'floor': {'quick': 10, 'thorough': 10},
    },
    'C09': {
        'engine': 'numx',
        'rule': 'numeral lattices vs strtod',
        'parts': [
            P('props/C09.cpp', 'fast', 'lattice-fast', tier_args={'thorough': ['--sig', '99999', '--strlen', '8']}),
            P('props/C09.cpp', 'asan', 'lattice-asan', tier_args={'quick': ['--sig', '99', '--patterns', '4', '--strlen', '5'],
                                                                 'thorough': ['--sig', '999', '--patterns', '16', '--strlen', '6']}),
        ],
        'floor': {'quick': 10, 'thorough': 10},
    },
    'C06': {
        'engine': 'langx',
        'rule': 'generated RFC 8259 documents vs reference parser',
        'parts': [
            P('props/C06.cpp', 'asan', 'docs-asan', tier_args={'quick': ['--nodes', '4'], 'thorough': ['--nodes', '5']}),
            P('props/C06.cpp', 'fast', 'docs-fast', tier_args={'quick': ['--nodes', '5'], 'thorough': ['--nodes', '7']}),
        ],
        'floor': {'quick': 1000, 'thorough': 1000},
    },
    'C07': {
        'engine': 'langx',
        'rule': 'rejection families of generated documents',
        'parts': [
            P('props/C07.cpp', 'asan', 'families-asan', tier_args={'quick': ['--nodes', '3', '--units', '4'], 'thorough': ['--nodes', '4', '--units', '5']}),
            P('props/C07.cpp', 'fast', 'families-fast', tier_args={'quick': ['--nodes', '4', '--units', '5'], 'thorough': ['--nodes', '6', '--units', '6']}),
        ],
        'floor': {'quick': 1000, 'thorough': 1000},
    },
    'C05': {
        'engine': 'langx',
        'rule': 'bounded-exhaustive JSON texts in exact-size buffers',
        'parts': [
            P('props/C05.cpp', 'asan', 'asan', tier_args={'quick': ['--units', '4', '--tokens', '3', '--depth', '1000'],
                                                        'thorough': ['--units', '5', '--tokens', '4', '--depth', '4096']}),
            P('props/C05.cpp', 'fast', 'guardpage', tier_args={'quick': ['--units', '5', '--tokens', '4', '--depth', '4096'],
                                                             'thorough': ['--units', '6', '--tokens', '5', '--depth', '4096']}),
        ],
        'floor': {'quick': 100, 'thorough': 100},
    },
    'C20': {
        'engine': 'numx',
        'pre': [['python3', 'tools/gen_utf_ref.py', 'build/utf_ref.bin']],
        'rule': 'exhaustive over all Unicode scalar values',
        'parts': [
            P('props/C20.cpp', 'fast', 'scalars-fast'),
            P('props/C20.cpp', 'asan', 'scalars-asan', tiers=('thorough',)),
        ],
        'floor': {'quick': 1112064, 'thorough': 1112064},
    },
}
